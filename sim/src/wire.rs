//! SimNet: answers travel as protobuf bytes, the way examples/src/wasm_client receives them.
//! Fault-free transport still encodes and decodes, so every proof of every run is a C19
//! round-trip sample. Faults: truncate, bit-flip, random bytes (field deletion lives in c19.rs
//! where the message tree is known).

use akd::proto::specs::types as pb;
use akd::{AppendOnlyProof, HistoryProof, LookupProof, SingleAppendOnlyProof};
use protobuf::Message;
use std::convert::TryFrom;

#[derive(Debug, Clone, PartialEq, Eq)]
pub enum WireError {
    /// bytes did not parse as the protobuf message
    Parse(String),
    /// message parsed but conversion to the akd type was refused
    Convert(String),
    /// decoded value differs from the value that was sent (fault-free transport only)
    RoundTripMismatch(String),
}

pub fn enc_lookup(p: &LookupProof) -> Vec<u8> {
    pb::LookupProof::from(p).write_to_bytes().expect("encode")
}
pub fn dec_lookup(b: &[u8]) -> Result<LookupProof, WireError> {
    let m = pb::LookupProof::parse_from_bytes(b).map_err(|e| WireError::Parse(e.to_string()))?;
    LookupProof::try_from(&m).map_err(|e| WireError::Convert(e.to_string()))
}
pub fn enc_history(p: &HistoryProof) -> Vec<u8> {
    pb::HistoryProof::from(p).write_to_bytes().expect("encode")
}
pub fn dec_history(b: &[u8]) -> Result<HistoryProof, WireError> {
    let m = pb::HistoryProof::parse_from_bytes(b).map_err(|e| WireError::Parse(e.to_string()))?;
    HistoryProof::try_from(&m).map_err(|e| WireError::Convert(e.to_string()))
}
pub fn enc_audit(p: &AppendOnlyProof) -> Vec<u8> {
    pb::AppendOnlyProof::from(p).write_to_bytes().expect("encode")
}
pub fn dec_audit(b: &[u8]) -> Result<AppendOnlyProof, WireError> {
    let m = pb::AppendOnlyProof::parse_from_bytes(b).map_err(|e| WireError::Parse(e.to_string()))?;
    AppendOnlyProof::try_from(&m).map_err(|e| WireError::Convert(e.to_string()))
}
pub fn enc_single_audit(p: &SingleAppendOnlyProof) -> Vec<u8> {
    pb::SingleAppendOnlyProof::from(p).write_to_bytes().expect("encode")
}
pub fn dec_single_audit(b: &[u8]) -> Result<SingleAppendOnlyProof, WireError> {
    let m = pb::SingleAppendOnlyProof::parse_from_bytes(b).map_err(|e| WireError::Parse(e.to_string()))?;
    SingleAppendOnlyProof::try_from(&m).map_err(|e| WireError::Convert(e.to_string()))
}

/// fault-free transport: encode, decode, demand identity
pub fn send_lookup(p: &LookupProof) -> Result<LookupProof, WireError> {
    let d = dec_lookup(&enc_lookup(p))?;
    if &d != p {
        return Err(WireError::RoundTripMismatch("LookupProof".into()));
    }
    Ok(d)
}
pub fn send_history(p: &HistoryProof) -> Result<HistoryProof, WireError> {
    let d = dec_history(&enc_history(p))?;
    if &d != p {
        return Err(WireError::RoundTripMismatch("HistoryProof".into()));
    }
    Ok(d)
}
pub fn send_audit(p: &AppendOnlyProof) -> Result<AppendOnlyProof, WireError> {
    let d = dec_audit(&enc_audit(p))?;
    if &d != p {
        return Err(WireError::RoundTripMismatch("AppendOnlyProof".into()));
    }
    Ok(d)
}
