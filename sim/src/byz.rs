//! The Byzantine server: harness code holding what a malicious operator holds — the storage
//! (hence every real node of the tree) and the VRF key — and assembling answers from those
//! real parts in dishonest ways. It never fabricates hash pre-images or VRF outputs.

use akd::storage::types::DbRecord;
use akd::tree_node::{TreeNode, TreeNodeType};
use akd::{AzksElement, AzksValue, Configuration, Direction, MembershipProof, NodeLabel, NonMembershipProof, SiblingProof};
use std::collections::BTreeMap;

/// All nodes of a stored tree at its latest epoch, keyed by label bytes (len || val)
pub struct TreeView {
    pub nodes: BTreeMap<(u32, [u8; 32]), TreeNode>,
}

fn key(l: &NodeLabel) -> (u32, [u8; 32]) {
    (l.label_len, l.label_val)
}

pub fn bit_at(v: &[u8; 32], i: u32) -> u8 {
    (v[(i / 8) as usize] >> (7 - (i % 8))) & 1
}

pub fn is_prefix(p: &NodeLabel, l: &NodeLabel) -> bool {
    p.label_len <= l.label_len && (0..p.label_len).all(|i| bit_at(&p.label_val, i) == bit_at(&l.label_val, i))
}

impl TreeView {
    pub fn from_snapshot(snap: &BTreeMap<Vec<u8>, DbRecord>) -> Self {
        let mut nodes = BTreeMap::new();
        for r in snap.values() {
            if let DbRecord::TreeNode(n) = r {
                nodes.insert(key(&n.label), n.latest_node.clone());
            }
        }
        TreeView { nodes }
    }
    pub fn root(&self) -> &TreeNode {
        self.nodes.get(&(0, [0u8; 32])).expect("root node")
    }
    pub fn get(&self, l: &NodeLabel) -> Option<&TreeNode> {
        self.nodes.get(&key(l))
    }
    pub fn leaves(&self) -> Vec<&TreeNode> {
        self.nodes.values().filter(|n| n.node_type == TreeNodeType::Leaf).collect()
    }
    /// the value with which a node enters its parent's hash
    pub fn value_in_parent<TC: Configuration>(n: &TreeNode) -> AzksValue {
        if n.node_type == TreeNodeType::Leaf {
            AzksValue(TC::hash_leaf_with_commitment(n.hash, n.last_epoch).0)
        } else {
            n.hash
        }
    }
    pub fn child_elem<TC: Configuration>(&self, n: &TreeNode, dir: Direction) -> AzksElement {
        let c = match dir {
            Direction::Left => n.left_child,
            Direction::Right => n.right_child,
        };
        match c.and_then(|l| self.get(&l)) {
            Some(ch) => AzksElement { label: ch.label, value: Self::value_in_parent::<TC>(ch) },
            None => AzksElement { label: TC::empty_label(), value: TC::empty_node_hash() },
        }
    }
    /// nodes on the path from the root towards `target`, as far as real nodes match it
    /// (each node's label is a prefix of, or equal to, the target)
    pub fn path_to(&self, target: &NodeLabel) -> Vec<&TreeNode> {
        let mut out = vec![self.root()];
        loop {
            let cur = *out.last().unwrap();
            if cur.label.label_len >= target.label_len {
                break;
            }
            let b = bit_at(&target.label_val, cur.label.label_len);
            let next = if b == 0 { cur.left_child } else { cur.right_child };
            match next.and_then(|l| self.get(&l)) {
                Some(ch) if is_prefix(&ch.label, target) => out.push(ch),
                _ => break,
            }
        }
        out
    }
    /// the real membership proof of a real node (leaf or interior): siblings along its path
    pub fn membership_of<TC: Configuration>(&self, node: &TreeNode) -> MembershipProof {
        let path = self.path_to(&node.label);
        let mut sibling_proofs = vec![];
        for w in path.windows(2) {
            let (parent, child) = (w[0], w[1]);
            let dir = if parent.left_child == Some(child.label) { Direction::Left } else { Direction::Right };
            let other = match dir {
                Direction::Left => Direction::Right,
                Direction::Right => Direction::Left,
            };
            sibling_proofs.push(SiblingProof { label: parent.label, siblings: [self.child_elem::<TC>(parent, other)], direction: dir });
        }
        MembershipProof { label: node.label, hash_val: Self::value_in_parent::<TC>(node), sibling_proofs }
    }
    /// a non-membership claim for `target` anchored at real node `anchor`, with the anchor's real
    /// children and real membership proof
    pub fn nonmembership_at<TC: Configuration>(&self, target: NodeLabel, anchor: &TreeNode) -> NonMembershipProof {
        NonMembershipProof {
            label: target,
            longest_prefix: anchor.label,
            longest_prefix_children: [self.child_elem::<TC>(anchor, Direction::Left), self.child_elem::<TC>(anchor, Direction::Right)],
            longest_prefix_membership_proof: self.membership_of::<TC>(anchor),
        }
    }
    pub fn contains_leaf(&self, l: &NodeLabel) -> bool {
        self.get(l).map(|n| n.node_type == TreeNodeType::Leaf).unwrap_or(false)
    }
}
