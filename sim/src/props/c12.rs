//! C12: concurrent publishes take effect one after another.
//! Schedule arm: 2-3 publisher actors on clones of one Directory (or on one shared instance),
//! interleaved by the simulator at storage-operation and storage-manager granularity.

use crate::harness::{Arm, RunReport, Tier, Violation};
use crate::histarm::{check_reads, gen_cache, gen_policy, gen_value, label_pool, make_manager, par_opt, CacheSpec, Checks, Obs, Reader};
use crate::model::{to_akd_batch, Cfg, Model, ModelCfg, PublishOutcome, SimVrf};
use crate::rng::{fp, ChooserSpec, Rng};
use crate::sched::{self, Policy, SimCfg};
use crate::simdb::SimStore;
use akd::append_only_zks::AzksParallelismConfig;
use akd::directory::Directory;
use serde::{Deserialize, Serialize};
use serde_json::{json, Value};
use std::collections::BTreeMap;

type Batch = Vec<(Vec<u8>, Vec<u8>)>;

#[derive(Clone, Debug, Serialize, Deserialize)]
pub struct Spec {
    pub cfg: Cfg,
    pub par_insert: u32,
    pub cache: CacheSpec,
    pub policy: Policy,
    pub h2_mask: u16,
    pub universe: Vec<Vec<u8>>,
    pub prefix: Vec<Batch>,
    pub concurrent: Vec<Batch>,
    /// true: all actors call publish on the same instance; false: each on its own clone
    pub shared_instance: bool,
    pub check_seed: u64,
    /// storage read failures (permille) while the concurrent calls run: a failing call next to a succeeding one
    #[serde(default)]
    pub read_fail_permille: u32,
    /// virtual milliseconds (= scheduler decisions, roughly) after which each concurrent call is invoked: 0 = at once
    #[serde(default)]
    pub start_delay_ms: Vec<u64>,
}

fn gen(rng: &mut Rng, _tier: Tier) -> Spec {
    let n = rng.range(2, 6) as usize;
    let universe = label_pool(rng, n);
    let mut unique = 0u64;
    let mut prefix = vec![];
    for _ in 0..rng.below(3) {
        let mut b: Batch = vec![];
        let mut idx: Vec<usize> = (0..universe.len()).collect();
        rng.shuffle(&mut idx);
        for i in idx.into_iter().take(rng.range(1, 3) as usize) {
            b.push((universe[i].clone(), gen_value(rng, &mut unique)));
        }
        prefix.push(b);
    }
    let k = rng.range(2, 3) as usize;
    let relation = rng.below(4); // 0 disjoint, 1 overlapping, 2 identical, 3 free
    let mut concurrent: Vec<Batch> = vec![];
    let mut idx: Vec<usize> = (0..universe.len()).collect();
    rng.shuffle(&mut idx);
    for a in 0..k {
        let mut b: Batch = vec![];
        match relation {
            0 => {
                // disjoint label sets
                for (j, i) in idx.iter().enumerate() {
                    if j % k == a {
                        b.push((universe[*i].clone(), gen_value(rng, &mut unique)));
                    }
                }
            }
            2 if a > 0 => b = concurrent[0].clone(),
            _ => {
                let mut id2 = idx.clone();
                rng.shuffle(&mut id2);
                for i in id2.into_iter().take(rng.range(1, 3) as usize) {
                    b.push((universe[i].clone(), gen_value(rng, &mut unique)));
                }
            }
        }
        if b.is_empty() {
            b.push((universe[0].clone(), gen_value(rng, &mut unique)));
        }
        concurrent.push(b);
    }
    if rng.chance(1, 4) {
        // one of the concurrent calls is malformed (repeats a label): it must fail WITHOUT EFFECT - in particular
        // without disturbing a valid call that is in the middle of its transaction
        let which = rng.below(concurrent.len() as u64) as usize;
        let dup = concurrent[which][rng.below(concurrent[which].len() as u64) as usize].0.clone();
        concurrent[which].push((dup, gen_value(rng, &mut unique)));
    }
    Spec {
        cfg: if rng.chance(1, 2) { Cfg::WhatsApp } else { Cfg::Experimental },
        par_insert: *rng.pick(&[0, 0, 2]),
        cache: gen_cache(rng),
        policy: gen_policy(rng),
        h2_mask: if rng.chance(2, 3) { (rng.next_u64() & 0x7ff) as u16 } else { 0 },
        universe,
        prefix,
        concurrent,
        shared_instance: rng.chance(1, 3),
        check_seed: rng.next_u64(),
        read_fail_permille: if rng.chance(1, 4) { *rng.pick(&[10, 40]) } else { 0 },
        start_delay_ms: (0..k).map(|_| if rng.chance(1, 2) { 0 } else { rng.range(1, 80) }).collect(),
    }
}

#[derive(Default)]
struct Out {
    violations: Vec<Violation>,
    checks: u64,
    probes: BTreeMap<String, u64>,
    nontrivial: Vec<u64>,
    states: Vec<u64>,
    herr: Option<String>,
}
impl Out {
    fn p(&mut self, n: &str) {
        *self.probes.entry(n.to_string()).or_insert(0) += 1;
    }
}

fn permutations(n: usize) -> Vec<Vec<usize>> {
    fn rec(cur: &mut Vec<usize>, used: &mut Vec<bool>, n: usize, out: &mut Vec<Vec<usize>>) {
        if cur.len() == n {
            out.push(cur.clone());
            return;
        }
        for i in 0..n {
            if !used[i] {
                used[i] = true;
                cur.push(i);
                rec(cur, used, n, out);
                cur.pop();
                used[i] = false;
            }
        }
    }
    let mut out = vec![];
    rec(&mut vec![], &mut vec![false; n], n, &mut out);
    out
}

async fn run_t<TC: ModelCfg>(spec: Spec) -> Out {
    let mut out = Out::default();
    let mut model = Model::new(TC::CFG);
    let store = SimStore::new();
    let vrf = SimVrf::default();
    let par = AzksParallelismConfig { insertion: par_opt(spec.par_insert), preload: par_opt(0) };
    let mgr = make_manager(store.handle(0), &spec.cache);
    let dir = match Directory::<TC, _, _>::new(mgr.clone(), vrf.clone(), par).await {
        Ok(d) => d,
        Err(e) => {
            out.herr = Some(format!("Directory::new: {e}"));
            return out;
        }
    };
    let pk = dir.get_public_key().await.unwrap().as_bytes().to_vec();
    for b in &spec.prefix {
        if let Err(e) = dir.publish(to_akd_batch(b)).await {
            out.herr = Some(format!("prefix publish failed: {e}"));
            return out;
        }
        model.publish(b);
    }
    let (e0, _h0) = model.current();
    // ---- the concurrent calls ----
    if spec.read_fail_permille > 0 {
        let pm = spec.read_fail_permille;
        sched::set_fault_plan(|f| f.read_fail_permille.push((0, pm)));
    }
    let shared = std::sync::Arc::new(dir.clone());
    let mut handles = vec![];
    for (ci, b) in spec.concurrent.iter().enumerate() {
        let batch = to_akd_batch(b);
        // a call may be invoked while another one is already under way
        let delay = spec.start_delay_ms.get(ci).copied().unwrap_or(0);
        if spec.shared_instance {
            let d = shared.clone();
            handles.push(tokio::spawn(async move {
                if delay > 0 {
                    tokio::time::sleep(std::time::Duration::from_millis(delay)).await;
                }
                d.publish(batch).await
            }));
        } else {
            let d = dir.clone();
            handles.push(tokio::spawn(async move {
                if delay > 0 {
                    tokio::time::sleep(std::time::Duration::from_millis(delay)).await;
                }
                d.publish(batch).await
            }));
        }
    }
    let mut results = vec![];
    for h in handles {
        match h.await {
            Ok(r) => results.push(r),
            Err(e) => {
                let msg = crate::sched::take_last_panic().unwrap_or_else(|| e.to_string());
                out.violations.push(Violation::new("c12_publish_panicked", format!("a concurrent publish call panicked: {msg}")));
                return out;
            }
        }
    }
    sched::set_fault_plan(|f| f.read_fail_permille.clear());
    // tasks a failed call may have left behind
    for _ in 0..2000 {
        if sched::pending_count() == 0 {
            break;
        }
        tokio::time::sleep(std::time::Duration::from_millis(2)).await;
    }
    let oks: Vec<usize> = (0..results.len()).filter(|i| results[*i].is_ok()).collect();
    let n_err = results.len() - oks.len();
    out.p(&format!("outcome_{}_ok_{}_err", oks.len(), n_err));
    let ok_pairs: Vec<(u64, [u8; 32])> = oks.iter().map(|i| results[*i].as_ref().map(|eh| (eh.0, eh.1)).unwrap()).collect();
    let final_eh = dir.get_epoch_hash().await;
    out.checks += 1;
    if mgr.is_transaction_active() {
        out.violations.push(Violation::new("c12_transaction_left_open", "after all concurrent publish calls returned".into()));
    }
    // ---- is there an order of the successful calls that explains every returned pair and the final state? ----
    let mut explained: Option<Model> = None;
    let mut advanced_in_order = 0;
    for perm in permutations(oks.len()) {
        let mut m = model.at_epoch(model.epoch);
        let mut good = true;
        let mut adv = 0;
        for pi in &perm {
            let call = oks[*pi];
            let (oc, e, h) = m.publish(&spec.concurrent[call]);
            if oc == PublishOutcome::Rejected {
                good = false;
                break;
            }
            if oc == PublishOutcome::Advanced {
                adv += 1;
            }
            if ok_pairs[*pi] != (e, h) {
                good = false;
                break;
            }
        }
        if good {
            if let Ok(f) = &final_eh {
                if (f.0, f.1) != m.current() {
                    good = false;
                }
            }
        }
        if good {
            advanced_in_order = adv;
            explained = Some(m);
            break;
        }
    }
    out.checks += 1;
    let mut facts: BTreeMap<String, Value> = BTreeMap::new();
    let mut epochs: Vec<u64> = ok_pairs.iter().map(|p| p.0).collect();
    epochs.sort();
    let dup_epoch = epochs.windows(2).any(|w| w[0] == w[1] && w[0] > e0);
    facts.insert("two_calls_returned_the_same_new_epoch".into(), json!(dup_epoch));
    facts.insert("shared_instance".into(), json!(spec.shared_instance));
    match explained {
        None => {
            let mut v = Violation::new(
                "c12_not_serializable",
                format!(
                    "no order of the {} successful calls explains the returned pairs {:?} and the final state {:?} (started at epoch {e0}; {} calls failed)",
                    oks.len(),
                    ok_pairs.iter().map(|p| (p.0, hex::encode(&p.1[..4]))).collect::<Vec<_>>(),
                    final_eh.as_ref().map(|f| (f.0, hex::encode(&f.1[..4]))).map_err(|e| e.to_string()),
                    n_err
                ),
            );
            v.facts = facts.clone();
            out.violations.push(v);
        }
        Some(m) => {
            if advanced_in_order >= 2 {
                out.p("two_or_more_concurrent_calls_advanced_the_epoch");
                out.nontrivial.push(fp(&(spec.check_seed, ok_pairs.clone())));
            }
            if n_err > 0 {
                out.p("some_call_failed_without_effect");
            }
            // the final state serves everything, and audits verify against the returned pairs
            let mut obs = Obs::default();
            let mut crng = Rng::new(spec.check_seed);
            let checks = Checks { c02: true, c03: true, c04: true, every: 1, audit_pairs: 0, ..Default::default() };
            check_reads::<TC>(&Reader::Rw(dir.clone()), &m, &spec.universe, &checks, &mut crng, &mut obs, &pk, false).await;
            out.checks += obs.checks;
            for mut v in obs.violations {
                v.class = format!("c12_final_state:{}", v.class);
                v.facts = facts.clone();
                out.violations.push(v);
            }
            // a fresh instance agrees
            let mgr2 = make_manager(store.handle(1), &CacheSpec::None);
            if let Ok(d2) = Directory::<TC, _, _>::new(mgr2, vrf.clone(), par).await {
                out.checks += 1;
                match d2.get_epoch_hash().await {
                    Ok(eh) if (eh.0, eh.1) == m.current() => {}
                    other => {
                        let mut v = Violation::new("c12_fresh_instance_disagrees", format!("{other:?} vs model {:?}", m.current().0));
                        v.facts = facts.clone();
                        out.violations.push(v);
                    }
                }
            }
            out.states.push(fp(&m.current()));
        }
    }
    out
}

pub struct C12;

impl Arm for C12 {
    fn id(&self) -> &'static str {
        "C12"
    }
    fn runs(&self, tier: Tier) -> u64 {
        match tier {
            Tier::Quick => 6000,
            Tier::Thorough => 150_000,
        }
    }
    fn gen(&self, rng: &mut Rng, tier: Tier, _i: u64) -> Value {
        serde_json::to_value(gen(rng, tier)).unwrap()
    }
    fn run(&self, spec_v: &Value, chooser: &ChooserSpec, log: bool) -> RunReport {
        let mut rep = RunReport::default();
        rep.liveness_class = Some("c12_no_progress".into());
        let spec: Spec = match serde_json::from_value(spec_v.clone()) {
            Ok(s) => s,
            Err(e) => {
                rep.harness_error = Some(format!("bad spec: {e}"));
                return rep;
            }
        };
        let simcfg = SimCfg { policy: spec.policy, h2_mask: spec.h2_mask, max_steps: 400_000, ..SimCfg::default() };
        let sample = json!({"cfg": format!("{:?}", spec.cfg), "cache": format!("{:?}", spec.cache), "policy": format!("{:?}", spec.policy), "h2_mask": spec.h2_mask, "prefix_publishes": spec.prefix.len(), "concurrent_batches": spec.concurrent.iter().map(|b| b.iter().map(|(l, v)| format!("{}={}", crate::histarm::short(l), crate::histarm::short(v))).collect::<Vec<_>>()).collect::<Vec<_>>(), "shared_instance": spec.shared_instance});
        let res = match spec.cfg {
            Cfg::WhatsApp => sched::run_sim(simcfg, chooser, log, run_t::<akd::WhatsAppV1Configuration>(spec)),
            Cfg::Experimental => sched::run_sim(simcfg, chooser, log, run_t::<akd::ExperimentalConfiguration<akd::ExampleLabel>>(spec)),
        };
        if let Some(o) = rep.absorb(res) {
            rep.checks = o.checks;
            for (k, c) in o.probes {
                rep.probe_n(&k, c);
            }
            rep.nontrivial = o.nontrivial;
            rep.states = o.states;
            rep.harness_error = rep.harness_error.take().or(o.herr);
            for v in o.violations {
                rep.violate(v);
            }
        }
        rep.sample = Some(sample);
        rep
    }
    fn shrink(&self, spec: &Value) -> Vec<Value> {
        let mut out = crate::harness::drop_candidates(spec, &["prefix"]);
        if spec["concurrent"].as_array().map(|a| a.len()).unwrap_or(0) > 2 {
            out.extend(crate::harness::drop_candidates(spec, &["concurrent"]).into_iter().filter(|c| c["concurrent"].as_array().map(|a| a.len()).unwrap_or(0) >= 2));
        }
        if let Some(bs) = spec.get("concurrent").and_then(|b| b.as_array()) {
            for (i, b) in bs.iter().enumerate() {
                let n = b.as_array().map(|a| a.len()).unwrap_or(0);
                if n > 1 {
                    for j in 0..n {
                        let mut c = spec.clone();
                        c["concurrent"][i].as_array_mut().unwrap().remove(j);
                        out.push(c);
                    }
                }
            }
        }
        for (k, v) in [("par_insert", json!(0)), ("cache", json!("None")), ("h2_mask", json!(0))] {
            if spec.get(k) != Some(&v) {
                let mut c = spec.clone();
                c[k] = v;
                out.push(c);
            }
        }
        out
    }
    fn rule(&self) -> String {
        "one case = 0..2 sequential publishes, then 2 or 3 publish calls issued concurrently (batches disjoint / overlapping / identical / free; in a quarter of the cases one call is malformed - it repeats a label - and must fail without effect; each call is invoked at once or after a seeded delay of 1..80 virtual ms, i.e. while another call is under way) on clones of one Directory or on one shared instance, cached or uncached, interleaved by the simulator at every database operation and (in two thirds of the runs) at a random subset of StorageManager entry points under a seeded policy (uniform, sticky, fifo/lifo with inversions). Oracle over the history of returns: there must exist an order of the successful calls such that applying their batches one after another to the model (calls that failed having no effect) reproduces every returned (epoch, root hash) pair and the final get_epoch_hash; then every label's lookup/history and ALL audit pairs must verify against the model hashes on the final state, a fresh instance must agree, and no transaction may be left open; a simulation that stops making progress is reported. non-trivial = at least two of the concurrent calls advanced the epoch; distinct = distinct (seed, returned pairs)".into()
    }
    fn assumptions(&self) -> Vec<String> {
        vec![
            "tasks are interleaved at every await that reaches the storage manager or the database, never run in parallel: data races inside DashMap/atomics and multi-threaded runs asked for by the quantifier are out of reach of this technique (see DESIGN.md section 10)".into(),
            "bounded preemption is sampled (sticky policy), not enumerated exhaustively".into(),
        ]
    }
}
