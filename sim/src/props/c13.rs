//! C13: every answer names a published epoch hash and verifies against it, or errors.
//! Schedule arm: reader requests run concurrently with publishes, commits written record by
//! record, cache flushes and the change poller; reader instances may lag behind storage.

use crate::harness::{Arm, RunReport, Tier, Violation};
use crate::histarm::{gen_cache, gen_policy, gen_value, hparams_for, label_pool, make_manager, par_opt, to_hp, CacheSpec};
use crate::model::{to_akd_batch, Cfg, Model, ModelCfg, SimVrf};
use crate::rng::{fp, ChooserSpec, Rng};
use crate::sched::{self, FaultPlan, Policy, SimCfg};
use crate::simdb::{CommitMode, SimStore};
use crate::wire;
use akd::append_only_zks::AzksParallelismConfig;
use akd::directory::{Directory, ReadOnlyDirectory};
use akd::{AkdLabel, HistoryVerificationParams};
use serde::{Deserialize, Serialize};
use serde_json::{json, Value};
use std::collections::BTreeMap;
use std::sync::{Arc, Mutex};
use std::time::Duration;

type Batch = Vec<(Vec<u8>, Vec<u8>)>;

#[derive(Clone, Debug, Serialize, Deserialize)]
pub struct ReaderSpec {
    pub cache: CacheSpec,
    pub poller_ms: Option<u64>,
    /// requests are issued on the writer's own Directory (shares its manager, cache and transaction)
    pub on_writer: bool,
    pub tasks: u32,
    pub read_fail_permille: u32,
}

#[derive(Clone, Debug, Serialize, Deserialize)]
pub struct Spec {
    pub cfg: Cfg,
    pub writer_cache: CacheSpec,
    pub par_insert: u32,
    pub policy: Policy,
    pub h2_mask: u16,
    pub universe: Vec<Vec<u8>>,
    pub prefix: Vec<Batch>,
    pub live: Vec<Batch>,
    pub writer_pause_ms: Vec<u64>,
    pub commit_per_record: bool,
    pub readers: Vec<ReaderSpec>,
    pub requests_per_task: u32,
    pub req_seed: u64,
    pub clock_jump_permille: u32,
    /// C20's concurrent variant: (label, cut-off epoch, issued just before live publish #i), run as a
    /// separate task interleaved with the publish and the readers
    #[serde(default)]
    pub tombstones: Vec<(Vec<u8>, u64, usize)>,
}

fn gen_batches(rng: &mut Rng, universe: &[Vec<u8>], n: u64, unique: &mut u64) -> Vec<Batch> {
    let mut out = vec![];
    for _ in 0..n {
        let mut b: Batch = vec![];
        let mut idx: Vec<usize> = (0..universe.len()).collect();
        rng.shuffle(&mut idx);
        for i in idx.into_iter().take(rng.range(1, 4.min(universe.len() as u64)) as usize) {
            b.push((universe[i].clone(), gen_value(rng, unique)));
        }
        // make sure the batch changes something: values are unique with high probability; an extra unique entry guarantees it
        b[0].1 = format!("w{}", *unique).into_bytes();
        *unique += 1;
        out.push(b);
    }
    out
}

fn gen(rng: &mut Rng, tier: Tier) -> Spec {
    let n = rng.range(2, 6) as usize;
    let universe = label_pool(rng, n);
    let mut unique = 0;
    let npre = rng.range(1, 3);
    let prefix = gen_batches(rng, &universe, npre, &mut unique);
    let nlive = rng.range(2, if tier == Tier::Thorough { 8 } else { 5 });
    let live = gen_batches(rng, &universe, nlive, &mut unique);
    let nreaders = rng.range(1, 2);
    let mut readers = vec![];
    for _ in 0..nreaders {
        let on_writer = rng.chance(1, 4);
        let cache = if on_writer {
            CacheSpec::None
        } else {
            match rng.below(4) {
                0 => CacheSpec::None,
                1 => CacheSpec::Default,
                2 => CacheSpec::Custom { lifetime_ms: *rng.pick(&[2, 5, 20]), limit_bytes: None, clean_ms: 2 },
                _ => CacheSpec::Custom { lifetime_ms: 30_000, limit_bytes: Some(*rng.pick(&[500, 5000])), clean_ms: 2 },
            }
        };
        readers.push(ReaderSpec {
            cache,
            poller_ms: if on_writer || rng.chance(1, 3) { None } else { Some(*rng.pick(&[1, 2, 5, 20, 100, 10_000])) },
            on_writer,
            tasks: rng.range(1, 2) as u32,
            read_fail_permille: if rng.chance(1, 5) { *rng.pick(&[5, 30]) } else { 0 },
        });
    }
    Spec {
        cfg: if rng.chance(1, 2) { Cfg::WhatsApp } else { Cfg::Experimental },
        writer_cache: gen_cache(rng),
        par_insert: *rng.pick(&[0, 0, 2]),
        policy: gen_policy(rng),
        h2_mask: if rng.chance(1, 2) { (rng.next_u64() & 0x7ff) as u16 } else { 0 },
        universe,
        prefix,
        writer_pause_ms: (0..nlive).map(|_| *rng.pick(&[0, 0, 1, 3, 10, 50])).collect(),
        live,
        commit_per_record: rng.chance(1, 2),
        readers,
        requests_per_task: rng.range(4, if tier == Tier::Thorough { 30 } else { 14 }) as u32,
        req_seed: rng.next_u64(),
        clock_jump_permille: if rng.chance(1, 4) { 3 } else { 0 },
        tombstones: vec![],
    }
}

/// C20's concurrent variant: the same topology plus tombstoning tasks with cut-offs before the label's latest update
pub fn gen_with_tombstones(rng: &mut Rng, tier: Tier) -> Spec {
    let mut spec = gen(rng, tier);
    for r in spec.readers.iter_mut() {
        r.read_fail_permille = 0;
    }
    let mut m = Model::new(spec.cfg);
    for b in &spec.prefix {
        m.publish(b);
    }
    let mut ts = vec![];
    for (i, b) in spec.live.iter().enumerate() {
        // candidates: labels whose latest update (as of now) is at an epoch >= 2
        let cands: Vec<(Vec<u8>, u64)> = m.users.iter().filter_map(|(l, v)| v.last().map(|x| (l.clone(), x.epoch))).filter(|(_, e)| *e >= 2).collect();
        if !cands.is_empty() && rng.chance(2, 3) {
            let (l, e) = cands[rng.below(cands.len() as u64) as usize].clone();
            ts.push((l, rng.range(1, e - 1), i));
        }
        m.publish(b);
    }
    spec.tombstones = ts;
    spec
}

#[derive(Default)]
struct Shared {
    violations: Vec<Violation>,
    checks: u64,
    probes: BTreeMap<String, u64>,
    answers_by_lag: BTreeMap<u64, u64>,
    ok_answers: u64,
    err_answers: u64,
    states: Vec<u64>,
}
impl Shared {
    fn p(&mut self, n: &str) {
        *self.probes.entry(n.to_string()).or_insert(0) += 1;
    }
    fn v(&mut self, v: Violation) {
        if self.violations.len() < 8 {
            self.violations.push(v);
        }
    }
}

enum Rd<TC: akd::Configuration> {
    W(Directory<TC, crate::simdb::SimDb, SimVrf>),
    R(ReadOnlyDirectory<TC, crate::simdb::SimDb, SimVrf>),
}

struct Ctx {
    fin: Model,
    pk: Vec<u8>,
    store: SimStore,
    shared: Arc<Mutex<Shared>>,
    /// per reader: the epoch most recently signalled by its poller
    notified: Arc<Mutex<Vec<u64>>>,
    universe: Vec<Vec<u8>>,
    /// label -> highest tombstone cut-off whose task has started
    cuts: Arc<Mutex<BTreeMap<Vec<u8>, u64>>>,
}

fn facts(kind: &str, rs: &ReaderSpec, lag: u64) -> BTreeMap<String, Value> {
    let mut f = BTreeMap::new();
    f.insert("request".into(), json!(kind));
    f.insert("reader_cached".into(), json!(rs.cache != CacheSpec::None));
    f.insert("on_writer_instance".into(), json!(rs.on_writer));
    f.insert("lag_ge_2".into(), json!(lag >= 2));
    f
}

/// one request + its oracle
async fn one_request<TC: ModelCfg>(rd: &Rd<TC>, cx: &Ctx, rs: &ReaderSpec, ridx: usize, rng: &mut Rng) {
    let min_epoch = cx.notified.lock().unwrap()[ridx];
    let kind = rng.below(10);
    let label = cx.universe[rng.below(cx.universe.len() as u64) as usize].clone();
    let published = |e: u64, h: &[u8; 32]| (e as usize) < cx.fin.hashes.len() && &cx.fin.hashes[e as usize] == h;
    let lag_of = |e: u64| cx.store.current_epoch().unwrap_or(0).saturating_sub(e);
    let mut sh_local: Vec<Violation> = vec![];
    let mut probes: Vec<String> = vec![];
    sched::log_event(|| format!("reader {ridx} request kind={kind} label={} starts (storage epoch {:?})", crate::histarm::short(&label), cx.store.current_epoch()));
    let mut answered: Option<u64> = None;
    let mk = |class: &str, d: String, kindn: &str, e: u64| {
        let mut v = Violation::new(class, d);
        v.facts = facts(kindn, rs, lag_of(e));
        v
    };
    match kind {
        0..=3 => {
            let res = match rd {
                Rd::W(d) => d.lookup(AkdLabel(label.clone())).await,
                Rd::R(d) => d.lookup(AkdLabel(label.clone())).await,
            };
            if let Ok((proof, eh)) = res {
                answered = Some(eh.0);
                if !published(eh.0, &eh.1) {
                    sh_local.push(mk("c13_unpublished_epoch_hash", format!("lookup answered with ({}, {}) which the directory never published", eh.0, hex::encode(eh.1)), "lookup", eh.0));
                } else {
                    let m = cx.fin.at_epoch(eh.0);
                    match wire::send_lookup(&proof).map_err(|e| format!("{e:?}")).and_then(|p| akd::client::lookup_verify::<TC>(&cx.pk, eh.1, eh.0, AkdLabel(label.clone()), p).map_err(|e| e.to_string())) {
                        Err(e) => {
                            // (C20's concurrent variant) a view that lags behind a tombstone cut-off serves, as "latest", a version
                            // whose stored value is gone: neither C13 nor C20 quantifies over that combination; counted, not judged
                            let cut = cx.cuts.lock().unwrap().get(&label).copied().unwrap_or(0);
                            if m.latest(&label).map(|w| w.epoch <= cut).unwrap_or(false) {
                                probes.push("lagging_lookup_of_a_tombstoned_version_(not_judged)".into());
                            } else {
                                sh_local.push(mk("c13_answer_not_verifying", format!("lookup of {} answered Ok at published epoch {} (storage at {:?}) but the proof does not verify: {e}", crate::histarm::short(&label), eh.0, cx.store.current_epoch()), "lookup", eh.0))
                            }
                        }
                        Ok(vr) => match m.latest(&label) {
                            Some(w) if w.version == vr.version && w.epoch == vr.epoch && w.value == vr.value.0 => {}
                            w => sh_local.push(mk("c13_answer_wrong_result", format!("lookup at epoch {}: got v{} e{}, model {:?}", eh.0, vr.version, vr.epoch, w.map(|w| (w.version, w.epoch))), "lookup", eh.0)),
                        },
                    }
                }
            }
        }
        4 | 5 => {
            let k = cx.fin.users.get(&label).map(|v| v.len()).unwrap_or(1);
            let hps = hparams_for(k, rng, true);
            let hp = *rng.pick(&hps);
            let res = match rd {
                Rd::W(d) => d.key_history(&AkdLabel(label.clone()), to_hp(hp)).await,
                Rd::R(d) => d.key_history(&AkdLabel(label.clone()), to_hp(hp)).await,
            };
            if let Ok((proof, eh)) = res {
                answered = Some(eh.0);
                if !published(eh.0, &eh.1) {
                    sh_local.push(mk("c13_unpublished_epoch_hash", format!("history answered with ({}, {}) which the directory never published", eh.0, hex::encode(eh.1)), "history", eh.0));
                } else {
                    let m = cx.fin.at_epoch(eh.0);
                    let cut = cx.cuts.lock().unwrap().get(&label).copied().unwrap_or(0);
                    let want_full: Vec<(u64, u64, Vec<u8>)> = m.history(&label, hp).unwrap_or_default().iter().map(|v| (v.version, v.epoch, v.value.clone())).collect();
                    // may a tombstone have replaced a (non-empty) value of this slice?
                    let may_be_tombstoned = want_full.iter().any(|w| w.1 <= cut && !w.2.is_empty());
                    let decoded = wire::send_history(&proof).map_err(|e| format!("{e:?}"));
                    let strict = decoded.clone().and_then(|p| {
                        akd::client::key_history_verify::<TC>(&cx.pk, eh.1, eh.0, AkdLabel(label.clone()), p, HistoryVerificationParams::Default { history_params: to_hp(hp) }).map_err(|e| e.to_string())
                    });
                    let judged = match (&strict, may_be_tombstoned) {
                        (Ok(_), _) => strict.clone(),
                        (Err(_), false) => strict.clone(),
                        // a tombstoned entry makes the default verifier refuse; the verifier that allows missing values must then accept
                        (Err(_), true) => decoded.and_then(|p| {
                            akd::client::key_history_verify::<TC>(&cx.pk, eh.1, eh.0, AkdLabel(label.clone()), p, HistoryVerificationParams::AllowMissingValues { history_params: to_hp(hp) }).map_err(|e| e.to_string())
                        }),
                    };
                    match judged {
                        Err(e) => sh_local.push(mk("c13_answer_not_verifying", format!("history {hp:?} of {} answered Ok at published epoch {} (storage at {:?}) but does not verify: {e}", crate::histarm::short(&label), eh.0, cx.store.current_epoch()), "history", eh.0)),
                        Ok(list) => {
                            let got: Vec<(u64, u64, Vec<u8>)> = list.iter().map(|r| (r.version, r.epoch, r.value.0.clone())).collect();
                            let same = got.len() == want_full.len() && got.iter().zip(want_full.iter()).all(|(g, w)| g.0 == w.0 && g.1 == w.1 && (g.2 == w.2 || (g.2.is_empty() && w.1 <= cut)));
                            if !same {
                                sh_local.push(mk("c13_answer_wrong_result", format!("history {hp:?} at epoch {}: got {:?} want {:?} (tombstone cut {cut})", eh.0, got.iter().map(|x| (x.0, x.1, x.2.len())).collect::<Vec<_>>(), want_full.iter().map(|x| (x.0, x.1, x.2.len())).collect::<Vec<_>>()), "history", eh.0));
                            }
                            if may_be_tombstoned {
                                probes.push("history_answer_over_possibly_tombstoned_entries".into());
                            }
                        }
                    }
                }
            }
        }
        6 => {
            let labels: Vec<AkdLabel> = cx.universe.iter().take(rng.range(1, cx.universe.len() as u64) as usize).map(|l| AkdLabel(l.clone())).collect();
            let res = match rd {
                Rd::W(d) => d.batch_lookup(&labels).await,
                Rd::R(d) => d.batch_lookup(&labels).await,
            };
            if let Ok((proofs, eh)) = res {
                answered = Some(eh.0);
                if !published(eh.0, &eh.1) {
                    sh_local.push(mk("c13_unpublished_epoch_hash", format!("batch lookup answered with ({}, {})", eh.0, hex::encode(eh.1)), "batch_lookup", eh.0));
                } else {
                    let m = cx.fin.at_epoch(eh.0);
                    for (l, p) in labels.iter().zip(proofs.into_iter()) {
                        match akd::client::lookup_verify::<TC>(&cx.pk, eh.1, eh.0, l.clone(), p) {
                            Err(e) => {
                                let cut = cx.cuts.lock().unwrap().get(&l.0).copied().unwrap_or(0);
                                if m.latest(&l.0).map(|w| w.epoch <= cut).unwrap_or(false) {
                                    probes.push("lagging_lookup_of_a_tombstoned_version_(not_judged)".into());
                                } else {
                                    sh_local.push(mk("c13_answer_not_verifying", format!("batch lookup entry {} at published epoch {}: {e}", crate::histarm::short(&l.0), eh.0), "batch_lookup", eh.0))
                                }
                            }
                            Ok(vr) => match m.latest(&l.0) {
                                Some(w) if w.version == vr.version && w.epoch == vr.epoch && w.value == vr.value.0 => {}
                                w => sh_local.push(mk("c13_answer_wrong_result", format!("batch lookup at epoch {}: got v{} model {:?}", eh.0, vr.version, w.map(|w| w.version)), "batch_lookup", eh.0)),
                            },
                        }
                    }
                }
            }
        }
        7 | 8 => {
            let cur = cx.store.current_epoch().unwrap_or(0);
            if cur >= 1 {
                let e = rng.range(1, cur);
                let s = rng.below(e);
                let res = match rd {
                    Rd::W(d) => d.audit(s, e).await,
                    Rd::R(d) => d.audit(s, e).await,
                };
                if let Ok(proof) = res {
                    let hashes: Vec<[u8; 32]> = (s..=e).map(|i| cx.fin.hashes[i as usize]).collect();
                    match wire::send_audit(&proof) {
                        Err(er) => sh_local.push(mk("c13_answer_not_verifying", format!("audit wire: {er:?}"), "audit", e)),
                        Ok(p) => {
                            if let Err(er) = akd::auditor::audit_verify::<TC>(hashes, p).await {
                                sh_local.push(mk("c13_answer_not_verifying", format!("audit({s},{e}) answered Ok (storage at {:?}) but does not verify against the published hashes: {er}", cx.store.current_epoch()), "audit", e));
                            }
                        }
                    }
                    probes.push("audit_answered".into());
                }
            }
        }
        _ => {
            let res = match rd {
                Rd::W(d) => d.get_epoch_hash().await,
                Rd::R(d) => d.get_epoch_hash().await,
            };
            if let Ok(eh) = res {
                answered = Some(eh.0);
                if !published(eh.0, &eh.1) {
                    sh_local.push(mk("c13_unpublished_epoch_hash", format!("get_epoch_hash answered ({}, {}): not a pair the directory published (storage at {:?})", eh.0, hex::encode(eh.1), cx.store.current_epoch()), "get_epoch_hash", eh.0));
                }
            }
        }
    }
    sched::log_event(|| format!("reader {ridx} request kind={kind} ends: answered={answered:?} violations={:?}", sh_local.iter().map(|v| v.class.clone()).collect::<Vec<_>>()));
    let mut sh = cx.shared.lock().unwrap();
    sh.checks += 1;
    match answered {
        Some(e) => {
            sh.ok_answers += 1;
            let lag = lag_of(e);
            *sh.answers_by_lag.entry(lag.min(3)).or_insert(0) += 1;
            if e < min_epoch {
                let mut v = Violation::new("c13_stale_after_notification", format!("request started after the poller signalled epoch {min_epoch} was answered from epoch {e}"));
                v.facts = facts("any", rs, lag);
                sh.v(v);
            }
            sh.states.push(fp(&(ridx, e, cx.store.inner.lock().unwrap().writes)));
        }
        None => sh.err_answers += 1,
    }
    for p in probes {
        sh.p(&p);
    }
    for v in sh_local {
        sh.v(v);
    }
}

async fn run_t<TC: ModelCfg>(spec: Spec) -> (Shared, Option<String>) {
    let shared = Arc::new(Mutex::new(Shared::default()));
    let store = SimStore::new();
    let vrf = SimVrf::default();
    let par = AzksParallelismConfig { insertion: par_opt(spec.par_insert), preload: par_opt(0) };
    let wdb = store.handle(0).with_commit_mode(if spec.commit_per_record { CommitMode::PerRecord } else { CommitMode::Atomic });
    let wmgr = make_manager(wdb, &spec.writer_cache);
    let wdir = match Directory::<TC, _, _>::new(wmgr.clone(), vrf.clone(), par).await {
        Ok(d) => d,
        Err(e) => return (Shared::default(), Some(format!("Directory::new: {e}"))),
    };
    let pk = wdir.get_public_key().await.unwrap().as_bytes().to_vec();
    // the whole publish history is known up front: compute every published pair
    let mut fin = Model::new(TC::CFG);
    for b in spec.prefix.iter().chain(spec.live.iter()) {
        fin.publish(b);
    }
    for b in &spec.prefix {
        if let Err(e) = wdir.publish(to_akd_batch(b)).await {
            return (Shared::default(), Some(format!("prefix publish failed: {e}")));
        }
    }
    let notified = Arc::new(Mutex::new(vec![0u64; spec.readers.len()]));
    let cuts: Arc<Mutex<BTreeMap<Vec<u8>, u64>>> = Arc::new(Mutex::new(BTreeMap::new()));
    let cx = Arc::new(Ctx { fin, pk, store: store.clone(), shared: shared.clone(), notified: notified.clone(), universe: spec.universe.clone(), cuts: cuts.clone() });
    // ---- readers ----
    let mut req_handles = vec![];
    let mut bg_handles = vec![];
    let mut reader_dirs: Vec<Option<ReadOnlyDirectory<TC, crate::simdb::SimDb, SimVrf>>> = vec![];
    for (ri, rs) in spec.readers.iter().enumerate() {
        let handle_id = 10 + ri as u16;
        let rd: Arc<Rd<TC>> = if rs.on_writer {
            reader_dirs.push(None);
            Arc::new(Rd::W(wdir.clone()))
        } else {
            let rmgr = make_manager(store.handle(handle_id), &rs.cache);
            match ReadOnlyDirectory::<TC, _, _>::new(rmgr, vrf.clone(), par).await {
                Ok(r) => {
                    reader_dirs.push(Some(r.clone()));
                    if let Some(ms) = rs.poller_ms {
                        let (tx, mut rx) = tokio::sync::mpsc::channel::<()>(8);
                        let r2 = r.clone();
                        bg_handles.push(tokio::spawn(async move {
                            let _ = r2.poll_for_azks_changes(Duration::from_millis(ms), Some(tx)).await;
                        }));
                        let st = store.clone();
                        let nt = notified.clone();
                        let sh = shared.clone();
                        bg_handles.push(tokio::spawn(async move {
                            while rx.recv().await.is_some() {
                                if let Some(e) = st.last_azks_read(handle_id) {
                                    let mut g = nt.lock().unwrap();
                                    if e > g[ri] {
                                        g[ri] = e;
                                    }
                                }
                                sh.lock().unwrap().p("poller_notified");
                            }
                        }));
                    }
                    Arc::new(Rd::R(r))
                }
                Err(e) => return (Shared::default(), Some(format!("ReadOnlyDirectory::new: {e}"))),
            }
        };
        if rs.read_fail_permille > 0 {
            let pm = rs.read_fail_permille;
            sched::set_fault_plan(|f| f.read_fail_permille.push((handle_id, pm)));
        }
        for t in 0..rs.tasks {
            let rd = rd.clone();
            let cx = cx.clone();
            let rs = rs.clone();
            let n = spec.requests_per_task;
            let seed = spec.req_seed ^ ((ri as u64) << 32) ^ t as u64;
            req_handles.push(tokio::spawn(async move {
                let mut rng = Rng::new(seed);
                for _ in 0..n {
                    one_request::<TC>(&rd, &cx, &rs, ri, &mut rng).await;
                    if rng.chance(1, 3) {
                        tokio::time::sleep(Duration::from_millis(rng.range(1, 8))).await;
                    }
                }
            }));
        }
    }
    if spec.clock_jump_permille > 0 {
        let pm = spec.clock_jump_permille;
        sched::set_fault_plan(|f| {
            f.clock_jump_permille = pm;
            f.jump_ms = vec![1, 2, 5, 20, 30_001];
        });
    }
    // ---- writer ----
    let mut herr = None;
    let mut writer_diverged = false;
    let mut tomb_handles = vec![];
    for (i, b) in spec.live.iter().enumerate() {
        let pause = spec.writer_pause_ms.get(i).copied().unwrap_or(0);
        if pause > 0 {
            tokio::time::sleep(Duration::from_millis(pause)).await;
        }
        for (l, cut, at) in spec.tombstones.iter() {
            if *at == i {
                // precondition of the statement: the cut-off lies before the label's latest update (as of now)
                let now_epoch = (cx.fin.hashes.len() - spec.live.len() + i) as u64 - 1;
                let latest = cx.fin.latest_at(l, now_epoch).map(|v| v.epoch).unwrap_or(0);
                if *cut >= latest {
                    continue;
                }
                {
                    let mut g = cuts.lock().unwrap();
                    let e = g.entry(l.clone()).or_insert(0);
                    *e = (*e).max(*cut);
                }
                let (mg, l2, c2, sh2) = (wmgr.clone(), l.clone(), *cut, shared.clone());
                tomb_handles.push(tokio::spawn(async move {
                    let r = mg.tombstone_value_states(&AkdLabel(l2), c2).await;
                    let mut g = sh2.lock().unwrap();
                    g.p("tombstone_task_finished");
                    if let Err(e) = r {
                        g.v(Violation::new("c20_tombstone_err", format!("{e}")));
                    }
                }));
            }
        }
        sched::log_event(|| format!("writer publish #{i} starts"));
        let pres = wdir.publish(to_akd_batch(b)).await;
        sched::log_event(|| format!("writer publish #{i} returned {:?}", pres.as_ref().map(|e| e.0).map_err(|e| e.to_string())));
        match pres {
            Ok(eh) => {
                let want = (cx.fin.hashes.len() - spec.live.len() + i) as u64;
                if eh.0 != want || eh.1 != cx.fin.hashes[want as usize] {
                    if spec.tombstones.is_empty() {
                        // the (fault-free, sequential) writer itself diverged from the model: that is C01 / C12 / C16
                        // territory; the readers of this run cannot be judged against pairs that were never published
                        let mut g = shared.lock().unwrap();
                        g.p("writer_diverged_from_the_model_(run_not_judged)");
                        g.violations.clear();
                        writer_diverged = true;
                    } else {
                        // the only thing running next to this publish is a tombstoning task
                        shared.lock().unwrap().v(Violation::new(
                            "c13_publish_diverged_under_concurrent_tombstoning",
                            format!("publish #{i} returned ({}, {}) but the history determines ({want}, {}) - tombstoning running concurrently changed what the directory commits to", eh.0, hex::encode(&eh.1[..6]), hex::encode(&cx.fin.hashes[want as usize][..6])),
                        ));
                    }
                    break;
                }
            }
            Err(e) => {
                herr = Some(format!("fault-free writer publish failed: {e}"));
                break;
            }
        }
    }
    for h in tomb_handles {
        let _ = h.await;
    }
    for h in req_handles {
        if let Err(e) = h.await {
            let msg = crate::sched::take_last_panic().unwrap_or_else(|| e.to_string());
            if msg.contains("/repo/akd") {
                shared.lock().unwrap().v(Violation::new("akd_panic", format!("a reader request panicked inside akd: {msg}")));
            } else {
                herr = Some(format!("request task panicked: {msg}"));
            }
        }
    }
    // ---- bounded liveness: faults have stopped; pollers must bring their readers to the final epoch ----
    sched::set_fault_plan(|f| {
        f.read_fail_permille.clear();
        f.clock_jump_permille = 0;
    });
    if writer_diverged {
        shared.lock().unwrap().violations.clear();
    }
    if herr.is_none() && !writer_diverged && shared.lock().unwrap().violations.is_empty() {
        let final_e = (cx.fin.hashes.len() - 1) as u64;
        for (ri, rs) in spec.readers.iter().enumerate() {
            if let (Some(ms), Some(r), 0) = (rs.poller_ms, &reader_dirs[ri], rs.read_fail_permille) {
                tokio::time::sleep(Duration::from_millis(2 * ms + 50)).await;
                shared.lock().unwrap().checks += 1;
                match r.get_epoch_hash().await {
                    Ok(eh) if eh.0 == final_e && eh.1 == cx.fin.hashes[final_e as usize] => shared.lock().unwrap().p("reader_caught_up_after_faults_stopped"),
                    other => {
                        let mut v = Violation::new("c13_reader_never_catches_up", format!("{} virtual ms after the last publish a polled reader (period {ms} ms) answers {:?} instead of epoch {final_e}", 2 * ms + 50, other.map(|e| e.0).map_err(|e| e.to_string())));
                        v.facts = facts("get_epoch_hash", rs, 0);
                        shared.lock().unwrap().v(v);
                    }
                }
            }
        }
    }
    for h in bg_handles {
        h.abort();
    }
    let out = std::mem::take(&mut *shared.lock().unwrap());
    (out, herr)
}

/// run a C13-topology spec; used by C13 itself and by C20's concurrent variant
pub fn run_spec_value(spec_v: &Value, chooser: &ChooserSpec, log: bool, class_prefix: &str) -> RunReport {
    let mut rep = C13.run(spec_v, chooser, log);
    if !class_prefix.is_empty() {
        for v in rep.violations.iter_mut() {
            if v.class.starts_with("c13_") {
                v.class = format!("{class_prefix}{}", &v.class[4..]);
            }
        }
    }
    rep
}

pub struct C13;

impl Arm for C13 {
    fn id(&self) -> &'static str {
        "C13"
    }
    fn runs(&self, tier: Tier) -> u64 {
        match tier {
            Tier::Quick => 6000,
            Tier::Thorough => 60_000,
        }
    }
    fn gen(&self, rng: &mut Rng, tier: Tier, _i: u64) -> Value {
        serde_json::to_value(gen(rng, tier)).unwrap()
    }
    fn run(&self, spec_v: &Value, chooser: &ChooserSpec, log: bool) -> RunReport {
        let mut rep = RunReport::default();
        rep.liveness_class = Some("c13_no_progress".into());
        let spec: Spec = match serde_json::from_value(spec_v.clone()) {
            Ok(s) => s,
            Err(e) => {
                rep.harness_error = Some(format!("bad spec: {e}"));
                return rep;
            }
        };
        let simcfg = SimCfg { policy: spec.policy, h2_mask: spec.h2_mask, max_steps: 1_500_000, faults: FaultPlan::default() };
        let sample = json!({"cfg": format!("{:?}", spec.cfg), "writer_cache": format!("{:?}", spec.writer_cache), "commit_per_record": spec.commit_per_record, "prefix": spec.prefix.len(), "live_publishes": spec.live.len(), "readers": spec.readers.iter().map(|r| format!("{r:?}")).collect::<Vec<_>>(), "requests_per_task": spec.requests_per_task, "policy": format!("{:?}", spec.policy), "h2_mask": spec.h2_mask});
        let res = match spec.cfg {
            Cfg::WhatsApp => sched::run_sim(simcfg, chooser, log, run_t::<akd::WhatsAppV1Configuration>(spec.clone())),
            Cfg::Experimental => sched::run_sim(simcfg, chooser, log, run_t::<akd::ExperimentalConfiguration<akd::ExampleLabel>>(spec.clone())),
        };
        if let Some((o, herr)) = rep.absorb(res) {
            rep.checks = o.checks;
            for (k, c) in o.probes {
                rep.probe_n(&k, c);
            }
            for (lag, c) in &o.answers_by_lag {
                rep.probe_n(&format!("ok_answers_with_lag_{}{}", lag, if *lag == 3 { "_or_more" } else { "" }), *c);
            }
            rep.probe_n("ok_answers", o.ok_answers);
            rep.probe_n("err_answers", o.err_answers);
            rep.states = o.states;
            rep.harness_error = rep.harness_error.take().or(herr);
            // non-trivial: some answer was produced while storage was ahead of the answering view, or overlapped publishes
            if o.ok_answers >= 3 && spec.live.len() >= 2 {
                rep.nontrivial.push(fp(&spec_v.to_string()));
            }
            for v in o.violations {
                rep.violate(v);
            }
        }
        rep.sample = Some(sample);
        rep
    }
    fn shrink(&self, spec: &Value) -> Vec<Value> {
        let mut out = vec![];
        out.extend(crate::harness::drop_candidates(spec, &["live"]).into_iter().filter(|c| c["live"].as_array().map(|a| !a.is_empty()).unwrap_or(false)));
        out.extend(crate::harness::drop_candidates(spec, &["prefix"]).into_iter().filter(|c| c["prefix"].as_array().map(|a| !a.is_empty()).unwrap_or(false)));
        if spec["readers"].as_array().map(|a| a.len()).unwrap_or(0) > 1 {
            out.extend(crate::harness::drop_candidates(spec, &["readers"]).into_iter().filter(|c| c["readers"].as_array().map(|a| !a.is_empty()).unwrap_or(false)));
        }
        let rpt = spec["requests_per_task"].as_u64().unwrap_or(1);
        if rpt > 1 {
            let mut c = spec.clone();
            c["requests_per_task"] = json!(rpt / 2);
            out.push(c);
        }
        for (k, v) in [("par_insert", json!(0)), ("h2_mask", json!(0)), ("writer_cache", json!("None")), ("commit_per_record", json!(false)), ("clock_jump_permille", json!(0))] {
            if spec.get(k) != Some(&v) {
                let mut c = spec.clone();
                c[k] = v;
                out.push(c);
            }
        }
        out
    }
    fn rule(&self) -> String {
        "one case = one writer Directory publishing 1..3 + 2..8 epochs (commit batches applied atomically or record by record with the epoch record last) while 1..2 reader views — ReadOnlyDirectory instances with their own manager (no cache / default cache / short lifetime / tiny memory limit), with a change poller of period 1 ms..10 s or none (lag grows without bound), or the writer's own instance — serve 1..2 request tasks each issuing seeded lookups, batch lookups, histories of every parameter shape, audits and epoch-hash requests; read errors are injected on some reader handles and the clock jumps in some runs; everything is interleaved by the simulator at database-operation and (half of the runs) storage-manager granularity. Oracle per response: Err, or the (epoch, root hash) is a pair of the precomputed model AND the proof verifies against it through the wire to the model's result at that epoch (audits: against the model's hashes of the range); a request started after the poller signalled epoch N must not answer from an older epoch; after the last publish, with faults stopped, every polled reader must answer at the final epoch within 2*period+50 virtual ms; no progress is a violation. non-trivial = >= 3 Ok answers during >= 2 live publishes; distinct = distinct specs".into()
    }
    fn assumptions(&self) -> Vec<String> {
        vec![
            "the writer itself is fault-free in this arm; published pairs are those of the precomputed model (a pair named before its commit is durable is not distinguished)".into(),
            "tasks interleave at storage-manager / database granularity, never run in parallel".into(),
            "verification soundness (C05-C07) is what ties 'verifies against a published pair' to 'is that epoch's data'; results are additionally compared with the model".into(),
        ]
    }
}
