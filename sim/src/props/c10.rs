//! C10: a publish that returns an error leaves the directory exactly as it was.
//! Fault enumeration: storage operation k of the publish fails, for every k.

use crate::harness::{Arm, RunReport, Tier, Violation};
use crate::histarm::{check_reads, gen_cache, gen_policy, gen_value, label_pool, make_manager, par_opt, CacheSpec, Checks, Obs, Reader};
use crate::model::{to_akd_batch, Cfg, Model, ModelCfg, PublishOutcome, SimVrf};
use crate::rng::{fp, ChooserSpec, Rng};
use crate::sched::{self, Policy, SimCfg, Site};
use crate::simdb::SimStore;
use akd::append_only_zks::AzksParallelismConfig;
use akd::directory::Directory;
use serde::{Deserialize, Serialize};
use serde_json::{json, Value};
use std::collections::BTreeMap;
use std::time::Duration;

type Batch = Vec<(Vec<u8>, Vec<u8>)>;

#[derive(Clone, Debug, Serialize, Deserialize)]
pub struct Spec {
    pub cfg: Cfg,
    pub par_insert: u32,
    pub par_preload: u32,
    pub cache: CacheSpec,
    pub policy: Policy,
    pub h2_mask: u16,
    pub universe: Vec<Vec<u8>>,
    pub prefix: Vec<Batch>,
    pub victim: Batch,
    pub after: Batch,
    /// None = enumerate; Some(k) = only this operation index fails
    pub only_k: Option<u64>,
    /// 0 = every k; otherwise at most this many (first, last, commit, and seeded others)
    pub max_ks: u32,
    pub check_seed: u64,
    /// true: instead of enumerating k, the commit write is rejected while a second task keeps issuing proof
    /// requests (batch lookups, histories, audits) on a clone of the directory during the victim publish
    #[serde(default)]
    pub readers: bool,
}

/// marker for "the commit write, with concurrent readers" in place of an operation index
const READERS_K: u64 = u64::MAX - 1;

fn gen(rng: &mut Rng, tier: Tier) -> Spec {
    let n = rng.range(2, 8) as usize;
    let universe = label_pool(rng, n);
    let mut unique = 0u64;
    let mut latest: BTreeMap<Vec<u8>, Vec<u8>> = BTreeMap::new();
    let mut mk = |rng: &mut Rng, latest: &mut BTreeMap<Vec<u8>, Vec<u8>>, shape: u64| -> Batch {
        // shape: 0 pure inserts, 1 pure updates, 2 mixed, 3 single entry
        let mut b: Batch = vec![];
        let known: Vec<Vec<u8>> = latest.keys().cloned().collect();
        let unknown: Vec<Vec<u8>> = universe.iter().filter(|l| !latest.contains_key(*l)).cloned().collect();
        let mut pick_new = |rng: &mut Rng, b: &mut Batch, k: usize| {
            let mut u = unknown.clone();
            rng.shuffle(&mut u);
            for l in u.into_iter().take(k) {
                b.push((l, gen_value(rng, &mut unique)));
            }
        };
        match shape {
            0 => {
                let k = rng.range(1, 4) as usize;
                pick_new(rng, &mut b, k)
            }
            1 => {
                let mut k = known.clone();
                rng.shuffle(&mut k);
                for l in k.into_iter().take(rng.range(1, 3) as usize) {
                    b.push((l, format!("u{}", rng.next_u64()).into_bytes()));
                }
            }
            2 => {
                let kn = rng.range(1, 3) as usize;
                pick_new(rng, &mut b, kn);
                let mut k = known.clone();
                rng.shuffle(&mut k);
                for l in k.into_iter().take(rng.range(1, 3) as usize) {
                    b.push((l, format!("u{}", rng.next_u64()).into_bytes()));
                }
            }
            _ => {
                if !known.is_empty() && rng.chance(1, 2) {
                    b.push((rng.pick(&known).clone(), format!("u{}", rng.next_u64()).into_bytes()));
                } else {
                    pick_new(rng, &mut b, 1);
                }
            }
        }
        if b.is_empty() {
            // fall back to an update or insert of whatever exists
            let l = universe[rng.below(universe.len() as u64) as usize].clone();
            b.push((l, format!("f{}", rng.next_u64()).into_bytes()));
        }
        for (l, v) in &b {
            latest.insert(l.clone(), v.clone());
        }
        b
    };
    let np = rng.range(0, 4);
    let mut prefix = vec![];
    for _ in 0..np {
        let shape = rng.below(3);
        let sh = if latest.is_empty() { 0 } else { shape };
        prefix.push(mk(rng, &mut latest, sh));
    }
    let mut latest_before_victim = latest.clone();
    let vshape = if latest.is_empty() { *rng.pick(&[0, 3]) } else { rng.below(4) };
    let victim = mk(rng, &mut latest, vshape);
    // `after` is generated as if the victim had never happened
    let ashape = if latest_before_victim.is_empty() { 0 } else { rng.below(4) };
    let after = mk(rng, &mut latest_before_victim, ashape);
    Spec {
        cfg: if rng.chance(1, 2) { Cfg::WhatsApp } else { Cfg::Experimental },
        par_insert: *rng.pick(&[0, 0, 2, 4]),
        par_preload: *rng.pick(&[0, 0, 2]),
        cache: gen_cache(rng),
        policy: gen_policy(rng),
        h2_mask: if rng.chance(1, 4) { (rng.next_u64() & 0x7ff) as u16 } else { 0 },
        universe,
        prefix,
        victim,
        after,
        only_k: None,
        max_ks: if tier == Tier::Thorough { 0 } else { 10 },
        check_seed: rng.next_u64(),
        readers: false,
    }
}

fn gen_with_readers(rng: &mut Rng, tier: Tier) -> Spec {
    let mut s = gen(rng, tier);
    if rng.chance(1, 4) {
        s.readers = true;
        if rng.chance(3, 4) && s.cache == CacheSpec::None {
            s.cache = CacheSpec::Default;
        }
        if rng.chance(3, 4) {
            s.par_insert = *rng.pick(&[2, 4]);
        }
    }
    s
}

#[derive(Default)]
struct CaseOut {
    violations: Vec<Violation>,
    checks: u64,
    n_ops: u64,
    sites: Vec<Site>,
    probes: Vec<String>,
    herr: Option<String>,
    reached: bool,
    state: u64,
}

fn phase_of(sites: &[Site], k: usize) -> &'static str {
    let commit = sites.iter().position(|s| *s == Site::DbCommit);
    let versions = sites.iter().position(|s| *s == Site::DbUserVersions);
    match (commit, versions) {
        (Some(c), _) if k == c => "commit",
        (Some(c), _) if k > c => "post_commit_read",
        (_, Some(v)) if k <= v => "pre_transaction_read",
        _ => "insertion_read",
    }
}

fn drain_obs(obs: &mut Obs, prefix: &str, facts: &BTreeMap<String, Value>, out: &mut CaseOut) {
    out.checks += obs.checks;
    obs.checks = 0;
    for mut v in obs.violations.drain(..) {
        v.class = format!("{prefix}{}", v.class);
        v.facts = facts.clone();
        if out.violations.len() < 8 {
            out.violations.push(v);
        }
    }
}

async fn run_case<TC: ModelCfg>(spec: Spec, k: Option<u64>, dry_sites: Vec<Site>) -> CaseOut {
    let mut out = CaseOut::default();
    let mut model = Model::new(TC::CFG);
    let store = SimStore::new();
    let vrf = SimVrf::default();
    let par = AzksParallelismConfig { insertion: par_opt(spec.par_insert), preload: par_opt(spec.par_preload) };
    let mgr = make_manager(store.handle(0), &spec.cache);
    let dir = match Directory::<TC, _, _>::new(mgr.clone(), vrf.clone(), par).await {
        Ok(d) => d,
        Err(e) => {
            out.herr = Some(format!("Directory::new: {e}"));
            return out;
        }
    };
    let pk = dir.get_public_key().await.unwrap().as_bytes().to_vec();
    for b in &spec.prefix {
        if let Err(e) = dir.publish(to_akd_batch(b)).await {
            out.herr = Some(format!("fault-free prefix publish failed: {e}"));
            return out;
        }
        model.publish(b);
    }
    let base = sched::db_ops_so_far(0);
    let (pe, ph) = model.current();
    let before_digest = store.digest();
    let readers_mode = spec.readers && k == Some(READERS_K);
    if readers_mode && model.classify(&spec.victim) != PublishOutcome::Advanced {
        out.probes.push("victim_changes_nothing_(no_commit_to_reject)".into());
        return out;
    }
    let stop = std::sync::Arc::new(std::sync::atomic::AtomicBool::new(false));
    let mut reader = None;
    if readers_mode {
        // every database write of this handle is rejected while the victim publish runs; the reader only reads
        sched::set_fault_plan(|f| f.write_fail_permille.push((0, 1000)));
        let d = dir.clone();
        let labels: Vec<akd::AkdLabel> = spec.universe.iter().map(|l| akd::AkdLabel(l.clone())).collect();
        let known: Vec<akd::AkdLabel> = spec.universe.iter().filter(|l| model.latest(l).is_some()).map(|l| akd::AkdLabel(l.clone())).collect();
        let stop2 = stop.clone();
        reader = Some(tokio::spawn(async move {
            let mut n = 0u64;
            while !stop2.load(std::sync::atomic::Ordering::SeqCst) && n < 400 {
                n += 1;
                let _ = d.batch_lookup(&known).await;
                if let Some(l) = labels.get((n as usize) % labels.len().max(1)) {
                    let _ = d.key_history(l, akd::verify::history::HistoryParams::Complete).await;
                }
                if pe >= 1 {
                    let _ = d.audit(pe - 1, pe).await;
                }
                tokio::time::sleep(Duration::from_millis(1)).await;
            }
            n
        }));
    } else if let Some(k) = k {
        sched::set_fault_plan(|f| f.fail_at.push((0, base + k)));
    }
    let res = dir.publish(to_akd_batch(&spec.victim)).await;
    if readers_mode {
        stop.store(true, std::sync::atomic::Ordering::SeqCst);
        sched::set_fault_plan(|f| f.write_fail_permille.clear());
    }
    // let tasks the failed call may have left behind run to completion
    for _ in 0..5000 {
        tokio::time::sleep(Duration::from_millis(2)).await;
        if sched::pending_count() == 0 {
            break;
        }
    }
    if let Some(r) = reader {
        match r.await {
            Ok(n) => out.probes.push(format!("reader_rounds_during_victim_publish_{}", if n >= 10 { "10+".to_string() } else { n.to_string() })),
            Err(_) => {
                let msg = crate::sched::take_last_panic().unwrap_or_default();
                out.violations.push(Violation::new("akd_panic", format!("a proof request running next to the failing publish panicked: {msg}")));
                return out;
            }
        }
    }
    let after_ops = sched::db_ops_so_far(0);
    out.n_ops = after_ops - base;
    out.sites = sched::db_op_sites(0)[base as usize..].to_vec();
    let k = match k {
        None => {
            match res {
                Ok(_) => {}
                Err(e) => out.herr = Some(format!("fault-free victim publish failed: {e}")),
            }
            return out;
        }
        Some(k) => k,
    };
    if !readers_mode && out.n_ops <= k {
        // the schedule diverged so that the publish needed fewer operations: the fault never fired
        out.probes.push("fault_not_reached".into());
        return out;
    }
    out.reached = true;
    let phase = if readers_mode { "commit_with_concurrent_proof_requests" } else { phase_of(&dry_sites, k as usize) };
    out.probes.push(format!("failed_in_phase_{phase}"));
    out.probes.push(format!("failed_site_{:?}", dry_sites.get(k as usize)));
    let mut facts: BTreeMap<String, Value> = BTreeMap::new();
    facts.insert("phase".into(), json!(phase));
    facts.insert("cached".into(), json!(spec.cache != CacheSpec::None));
    let viol = |class: &str, d: String, facts: &BTreeMap<String, Value>| {
        let mut v = Violation::new(class, d);
        v.facts = facts.clone();
        v
    };
    out.checks += 1;
    if let Ok(eh) = &res {
        out.violations.push(viol("c10_publish_ok_despite_failure", format!("operation {k} ({:?}, {phase}) failed but publish returned Ok(epoch {})", dry_sites.get(k as usize), eh.0), &facts));
        return out;
    }
    out.checks += 1;
    if mgr.is_transaction_active() {
        out.violations.push(viol("c10_transaction_left_open", format!("after failure of operation {k} ({phase})"), &facts));
    }
    let mut crng = Rng::new(spec.check_seed);
    let checks = Checks { c02: true, c03: true, c04: true, every: 1, audit_pairs: 2, ..Default::default() };
    // ---- same instance ----
    out.checks += 1;
    match dir.get_epoch_hash().await {
        Ok(eh) if eh.0 == pe && eh.1 == ph => {}
        Ok(eh) => out.violations.push(viol("c10_same_instance_epoch_hash", format!("after failed publish (op {k}, {phase}) the same instance reports ({}, {}) instead of ({pe}, {})", eh.0, hex::encode(eh.1), hex::encode(ph)), &facts)),
        Err(e) => out.violations.push(viol("c10_same_instance_epoch_hash_err", format!("{e}"), &facts)),
    }
    let mut obs = Obs::default();
    check_reads::<TC>(&Reader::Rw(dir.clone()), &model, &spec.universe, &checks, &mut crng, &mut obs, &pk, false).await;
    drain_obs(&mut obs, "c10_same_instance:", &facts, &mut out);
    out.checks += 1;
    if dir.audit(pe, pe + 1).await.is_ok() {
        out.violations.push(viol("c10_audit_of_failed_epoch_served", format!("audit({pe},{}) served after failed publish", pe + 1), &facts));
    }
    // ---- fresh instance over the same storage ----
    let mgr2 = make_manager(store.handle(1), &CacheSpec::None);
    match Directory::<TC, _, _>::new(mgr2.clone(), vrf.clone(), par).await {
        Err(e) => out.violations.push(viol("c10_fresh_instance_open", format!("{e}"), &facts)),
        Ok(dir2) => {
            out.checks += 1;
            match dir2.get_epoch_hash().await {
                Ok(eh) if eh.0 == pe && eh.1 == ph => {}
                Ok(eh) => out.violations.push(viol("c10_fresh_instance_epoch_hash", format!("after failed publish (op {k}, {phase}) a fresh instance reports ({}, {}) instead of ({pe}, {})", eh.0, hex::encode(eh.1), hex::encode(ph)), &facts)),
                Err(e) => out.violations.push(viol("c10_fresh_instance_epoch_hash_err", format!("{e}"), &facts)),
            }
            let mut obs = Obs::default();
            check_reads::<TC>(&Reader::Rw(dir2), &model, &spec.universe, &checks, &mut crng, &mut obs, &pk, false).await;
            drain_obs(&mut obs, "c10_fresh_instance:", &facts, &mut out);
        }
    }
    if store.digest() == before_digest {
        out.probes.push("storage_byte_identical_after_failure".into());
    } else {
        out.probes.push("storage_differs_after_failure_(future_values_tolerated_if_reads_agree)".into());
    }
    // ---- a later publish succeeds and ends as if the failed call had never been made ----
    let oc = model.classify(&spec.after);
    let res2 = dir.publish(to_akd_batch(&spec.after)).await;
    let (_, me, mh) = model.publish(&spec.after);
    out.checks += 1;
    match res2 {
        Err(e) => out.violations.push(viol("c10_later_publish_failed", format!("publish after the failed one (op {k}, {phase}) failed: {e}"), &facts)),
        Ok(eh) => {
            if eh.0 != me || eh.1 != mh {
                out.violations.push(viol("c10_later_publish_state", format!("after failed publish (op {k}, {phase}) the next publish ({oc:?}) returned ({}, {}) but the model without the failed call has ({me}, {})", eh.0, hex::encode(eh.1), hex::encode(mh)), &facts));
            } else if oc == PublishOutcome::Advanced {
                let mut obs = Obs::default();
                check_reads::<TC>(&Reader::Rw(dir.clone()), &model, &spec.universe, &checks, &mut crng, &mut obs, &pk, false).await;
                drain_obs(&mut obs, "c10_after_later_publish:", &facts, &mut out);
            }
        }
    }
    out.state = fp(&(k, phase, store.digest()));
    out
}

fn run_one(spec: &Spec, k: Option<u64>, dry_sites: Vec<Site>, chooser: &ChooserSpec, log: bool) -> (crate::sched::SimResult<CaseOut>, ()) {
    let simcfg = SimCfg { policy: spec.policy, h2_mask: spec.h2_mask, ..SimCfg::default() };
    let s = spec.clone();
    let r = match spec.cfg {
        Cfg::WhatsApp => sched::run_sim(simcfg, chooser, log, run_case::<akd::WhatsAppV1Configuration>(s, k, dry_sites)),
        Cfg::Experimental => sched::run_sim(simcfg, chooser, log, run_case::<akd::ExperimentalConfiguration<akd::ExampleLabel>>(s, k, dry_sites)),
    };
    (r, ())
}

pub struct C10;

impl Arm for C10 {
    fn id(&self) -> &'static str {
        "C10"
    }
    fn level(&self) -> &'static str {
        "fault_enumeration"
    }
    fn runs(&self, tier: Tier) -> u64 {
        match tier {
            Tier::Quick => 400,
            Tier::Thorough => 2500,
        }
    }
    fn gen(&self, rng: &mut Rng, tier: Tier, _i: u64) -> Value {
        serde_json::to_value(gen_with_readers(rng, tier)).unwrap()
    }
    fn run(&self, spec_v: &Value, chooser: &ChooserSpec, log: bool) -> RunReport {
        let mut rep = RunReport::default();
        let spec: Spec = match serde_json::from_value(spec_v.clone()) {
            Ok(s) => s,
            Err(e) => {
                rep.harness_error = Some(format!("bad spec: {e}"));
                return rep;
            }
        };
        // dry run: how many storage operations does the victim publish perform under this schedule?
        let (dry, _) = run_one(&spec, None, vec![], chooser, false);
        let dry_out = match rep.absorb(dry) {
            Some(o) => o,
            None => return rep,
        };
        if let Some(e) = dry_out.herr {
            rep.harness_error = Some(e);
            return rep;
        }
        let n = dry_out.n_ops;
        let sites = dry_out.sites.clone();
        let ks: Vec<u64> = match spec.only_k {
            Some(k) => vec![k],
            None if spec.readers => vec![READERS_K],
            None => {
                if spec.max_ks == 0 || n <= spec.max_ks as u64 {
                    (0..n).collect()
                } else {
                    let mut r = Rng::new(spec.check_seed ^ 0xc10);
                    let mut ks = vec![0, n - 1];
                    if let Some(c) = sites.iter().position(|s| *s == Site::DbCommit) {
                        ks.push(c as u64);
                        if c >= 1 {
                            ks.push(c as u64 - 1);
                        }
                    }
                    while ks.len() < spec.max_ks as usize {
                        ks.push(r.below(n));
                    }
                    ks.sort();
                    ks.dedup();
                    ks
                }
            }
        };
        let mut total_steps = rep.stats.steps;
        let mut interleavings = vec![rep.stats.interleaving];
        for k in ks {
            let (r, _) = run_one(&spec, Some(k), sites.clone(), chooser, log && spec.only_k.is_some());
            let mut sub = RunReport::default();
            let o = sub.absorb(r);
            total_steps += sub.stats.steps;
            interleavings.push(sub.stats.interleaving);
            for (kk, vv) in &sub.stats.faults {
                *rep.stats.faults.entry(kk.clone()).or_insert(0) += vv;
            }
            for (kk, vv) in &sub.stats.grants {
                *rep.stats.grants.entry(kk.clone()).or_insert(0) += vv;
            }
            rep.stats.virtual_ms += sub.stats.virtual_ms;
            rep.stats.choice_steps += sub.stats.choice_steps;
            rep.stats.max_pending = rep.stats.max_pending.max(sub.stats.max_pending);
            if let Some(e) = sub.harness_error {
                rep.harness_error = Some(format!("k={k}: {e}"));
                return rep;
            }
            for v in sub.violations {
                // akd panic etc. raised by absorb
                rep.violate(v);
            }
            if let Some(o) = o {
                if let Some(e) = o.herr {
                    rep.harness_error = Some(format!("k={k}: {e}"));
                    return rep;
                }
                rep.checks += o.checks;
                for p in o.probes {
                    rep.probe(&p);
                }
                if o.reached {
                    rep.nontrivial.push(fp(&(spec_v.to_string(), k)));
                    rep.states.push(o.state);
                }
                if !o.violations.is_empty() {
                    let mut s2 = spec.clone();
                    s2.only_k = Some(k);
                    rep.spec_override = Some(serde_json::to_value(&s2).unwrap());
                    rep.trace = sub.trace.clone();
                    rep.log = sub.log.clone();
                    for v in o.violations {
                        rep.violate(v);
                    }
                    break;
                }
            }
        }
        rep.stats.steps = total_steps;
        rep.stats.interleaving = fp(&interleavings);
        rep.probe_n("storage_ops_in_victim_publish", n);
        rep.sample = Some(json!({"cfg": format!("{:?}", spec.cfg), "cache": format!("{:?}", spec.cache), "par_insert": spec.par_insert, "prefix_publishes": spec.prefix.len(), "victim_entries": spec.victim.len(), "storage_ops_in_victim_publish": n, "op_sites": sites.iter().map(|s| s.name()).collect::<Vec<_>>()}));
        rep
    }
    fn shrink(&self, spec: &Value) -> Vec<Value> {
        let mut out = crate::harness::drop_candidates(spec, &["prefix"]);
        out.extend(crate::harness::drop_candidates(spec, &["after"]));
        for (k, v) in [("par_insert", json!(0)), ("par_preload", json!(0)), ("h2_mask", json!(0)), ("policy", json!({"Fifo": 0}))] {
            if spec.get(k) != Some(&v) {
                let mut c = spec.clone();
                c[k] = v;
                out.push(c);
            }
        }
        out
    }
    fn rule(&self) -> String {
        "(a quarter of the evaluations instead reject the COMMIT WRITE of the victim publish while a second task keeps issuing batch lookups, histories and audits on a clone of the directory - proof requests that preload nodes while the transaction is open - and then apply the same oracle) one evaluation = one (history prefix of 0..4 publishes, victim publish of seeded shape: pure inserts / pure updates / mixed / single entry, later publish) under one seeded schedule and configuration (cached/uncached manager, parallel levels); a dry run counts the N storage operations of the victim publish, then the run is repeated with operation k failing for every k < N (thorough) or for first, last, commit, commit-1 and seeded others (quick). Oracle per k: the call returns Err; on the SAME instance the epoch hash is the previous pair, every label's lookup/history and audits verify to the previous state, an audit ending at the would-be epoch is refused, no transaction is open; a FRESH instance over the same storage agrees; a later, different publish succeeds and lands on the model's state as if the failed call had never been made (followed by a full read sweep). distinct non-trivial case = distinct (history, k) whose fault actually fired".into()
    }
    fn assumptions(&self) -> Vec<String> {
        vec![
            "storage failures are whole-operation failures: the failed read returns an error, the failed commit write applies nothing (ambiguous outcomes are not injected)".into(),
            "the post-commit root-hash read is part of the publish call and is included in k".into(),
            "tasks the failed call leaves behind are allowed to run on before the oracles are evaluated".into(),
        ]
    }
}
