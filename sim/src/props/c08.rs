//! C08: lookup and history verifiers agree on a label's latest version under one root —
//! for ANY tree, including one built by a dishonest publisher.

use crate::byz::TreeView;
use crate::forge::{marker_version, Forge};
use crate::harness::{Arm, RunReport, Tier, Violation};
use crate::histarm::{make_manager, CacheSpec};
use crate::model::{futures_now, Cfg, ModelCfg, SimVrf};
use crate::rng::{fp, ChooserSpec, Rng};
use crate::sched::{self, SimCfg};
use crate::simdb::SimStore;
use akd::append_only_zks::{AzksParallelismConfig, InsertMode};
use akd::ecvrf::VRFKeyStorage;
use akd::verify::history::HistoryParams;
use akd::{AkdLabel, AkdValue, Azks, AzksElement, AzksValue, HistoryVerificationParams, NodeLabel, VersionFreshness};
use serde::{Deserialize, Serialize};
use serde_json::{json, Value};
use std::collections::{BTreeMap, BTreeSet};

#[derive(Clone, Debug, Serialize, Deserialize)]
pub struct Spec {
    pub cfg: Cfg,
    pub epochs: u64,
    pub label: Vec<u8>,
    /// leaves the publisher places in the tree: (fresh?, version)
    pub present: Vec<(bool, u64)>,
    pub filler_per_epoch: u32,
    pub seed: u64,
}

fn gen(rng: &mut Rng, tier: Tier) -> Spec {
    let max_e = if tier == Tier::Thorough { 20 } else { 12 };
    let e = rng.range(1, max_e);
    let mut s: BTreeSet<(bool, u64)> = BTreeSet::new();
    match rng.below(4) {
        0 | 1 => {
            // an honest prefix 1..n plus isolated later leaves
            let n = rng.range(1, e);
            for v in 1..=n {
                s.insert((true, v));
                if v < n {
                    s.insert((false, v));
                }
            }
            for _ in 0..rng.below(4) {
                let m = rng.range(1, e);
                s.insert((true, m));
                if rng.chance(1, 2) {
                    s.insert((true, marker_version(m)));
                }
                if rng.chance(1, 4) && m > 1 {
                    s.insert((false, m - 1));
                }
            }
        }
        2 => {
            // honest prefix with gaps at marker versions
            let n = rng.range(1, e);
            for v in 1..=n {
                if !(v.is_power_of_two() && rng.chance(1, 2)) {
                    s.insert((true, v));
                }
                if v < n && rng.chance(5, 6) {
                    s.insert((false, v));
                }
            }
        }
        _ => {
            for v in 1..=e {
                if rng.chance(1, 2) {
                    s.insert((true, v));
                }
                if rng.chance(1, 3) {
                    s.insert((false, v));
                }
            }
        }
    }
    Spec {
        cfg: if rng.chance(1, 2) { Cfg::WhatsApp } else { Cfg::Experimental },
        epochs: e,
        label: if rng.chance(1, 4) {
            vec![]
        } else {
            let n = rng.range(1, 12) as usize;
            rng.bytes(n)
        },
        present: s.into_iter().collect(),
        filler_per_epoch: rng.range(0, 2) as u32,
        seed: rng.next_u64(),
    }
}

#[derive(Default)]
struct Out {
    violations: Vec<Violation>,
    checks: u64,
    probes: BTreeMap<String, u64>,
    nontrivial: Vec<u64>,
    herr: Option<String>,
}

fn value_of(v: u64) -> Vec<u8> {
    format!("value-{v}").into_bytes()
}

async fn run_t<TC: ModelCfg>(spec: Spec) -> Out {
    let mut out = Out::default();
    let store = SimStore::new();
    let mgr = make_manager(store.handle(0), &CacheSpec::None);
    let vrf = SimVrf::default();
    let ckey = TC::hash(&vrf.0);
    let mut azks = match Azks::new::<TC, _>(&mgr).await {
        Ok(a) => a,
        Err(e) => {
            out.herr = Some(format!("{e}"));
            return out;
        }
    };
    let e_max = spec.epochs;
    let mut rng = Rng::new(spec.seed);
    // version v is published in epoch v (the honest timing); stale(v) lands with version v+1
    let epoch_of_fresh = |v: u64| v.min(e_max);
    let epoch_of_stale = |v: u64| (v + 1).min(e_max);
    for ep in 1..=e_max {
        let mut elems: Vec<AzksElement> = vec![];
        for (fresh, v) in &spec.present {
            let at = if *fresh { epoch_of_fresh(*v) } else { epoch_of_stale(*v) };
            if at != ep {
                continue;
            }
            let f = if *fresh { VersionFreshness::Fresh } else { VersionFreshness::Stale };
            let nl = futures_now(vrf.get_node_label::<TC>(&AkdLabel(spec.label.clone()), f, *v)).unwrap();
            let value = if *fresh { TC::compute_fresh_azks_value(&ckey, &nl, *v, &AkdValue(value_of(*v))) } else { TC::stale_azks_value() };
            elems.push(AzksElement { label: nl, value });
        }
        for _ in 0..spec.filler_per_epoch.max(if elems.is_empty() { 1 } else { 0 }) {
            let b = rng.bytes(32);
            let mut l = [0u8; 32];
            l.copy_from_slice(&b);
            elems.push(AzksElement { label: NodeLabel::new(l, 256), value: AzksValue(TC::hash(&b)) });
        }
        if let Err(e) = azks.batch_insert_nodes::<TC, _>(&mgr, elems, InsertMode::Directory, AzksParallelismConfig::disabled()).await {
            out.herr = Some(format!("insert failed: {e}"));
            return out;
        }
    }
    let root = azks.get_root_hash::<TC, _>(&mgr).await.unwrap();
    let pk = futures_now(vrf.get_vrf_public_key()).unwrap().as_bytes().to_vec();
    let view = TreeView::from_snapshot(&store.snapshot());
    let mut forge: Forge<TC> = Forge::new(&view, vrf.clone());
    let label = spec.label.clone();
    // ---- every history claim [s, n] ----
    let mut hist_accepted: BTreeMap<u64, Vec<(u64, bool)>> = BTreeMap::new(); // latest n -> [(s, complete)]
    for n in 1..=e_max {
        for s in 1..=n {
            let entries: Vec<(u64, Vec<u8>, u64)> = (s..=n).rev().map(|v| (v, value_of(v), epoch_of_fresh(v))).collect();
            let hp = if s == 1 { HistoryParams::Complete } else { HistoryParams::MostRecent((n - s + 1) as usize) };
            // (a) assembled with every part the verifier is entitled to; (b) with the unsupported parts left out
            for (how, proof) in [("assembled", forge.history(&label, &entries, e_max)), ("assembled_with_omissions", forge.history_omitting(&label, &entries, e_max))] {
                let proof = match proof {
                    Some(p) => p,
                    None => continue,
                };
                out.checks += 1;
                if akd::client::key_history_verify::<TC>(&pk, root, e_max, AkdLabel(label.clone()), proof, HistoryVerificationParams::Default { history_params: hp }).is_ok() {
                    hist_accepted.entry(n).or_default().push((s, s == 1));
                    *out.probes.entry(format!("{how}_history_accepted")).or_insert(0) += 1;
                } else {
                    *out.probes.entry(format!("{how}_history_rejected")).or_insert(0) += 1;
                }
            }
        }
    }
    // ---- every lookup claim m ----
    let mut lookup_accepted: Vec<u64> = vec![];
    for m in 1..=e_max {
        if let Some(p) = forge.lookup(&label, m, &value_of(m), epoch_of_fresh(m)) {
            out.checks += 1;
            if akd::client::lookup_verify::<TC>(&pk, root, e_max, AkdLabel(label.clone()), p).is_ok() {
                lookup_accepted.push(m);
            } else {
                *out.probes.entry("assembled_lookup_rejected".into()).or_insert(0) += 1;
            }
        }
    }
    *out.probes.entry(format!("history_latest_versions_accepted_{}", hist_accepted.len().min(3))).or_insert(0) += 1;
    *out.probes.entry(format!("lookup_versions_accepted_{}", lookup_accepted.len().min(3))).or_insert(0) += 1;
    // ---- oracle ----
    if hist_accepted.len() > 1 {
        let mut v = Violation::new(
            "c08_two_histories_disagree",
            format!("epoch {e_max}, leaves {:?}: history proofs verify with different latest versions {:?}", spec.present, hist_accepted.iter().map(|(n, c)| (*n, c.clone())).collect::<Vec<_>>()),
        );
        v.facts.insert("kind".into(), json!("history_history"));
        out.violations.push(v);
    }
    for (n, claims) in &hist_accepted {
        if !claims.iter().any(|(_, complete)| *complete) {
            continue;
        }
        for m in &lookup_accepted {
            if m != n {
                let (_, future) = akd_core::utils::get_marker_versions(1, *n, e_max);
                // the shape that the protocol leaves open: a later version m whose own number and whose
                // single lookup marker both fall outside the future markers a history for n checks
                let open_by_construction = m > n && !future.contains(m) && !future.contains(&marker_version(*m));
                let mut v = Violation::new(
                    "c08_lookup_disagrees_with_complete_history",
                    format!(
                        "epoch {e_max}, leaves {:?}: a complete history verifies with latest version {n} and a lookup verifies with version {m} under the same root (future markers checked for {n}: {future:?}; lookup marker of {m}: {})",
                        spec.present,
                        marker_version(*m)
                    ),
                );
                v.facts.insert("lookup_version_later_and_outside_history_future_markers".into(), json!(open_by_construction));
                out.violations.push(v);
            }
        }
    }
    if !hist_accepted.is_empty() || !lookup_accepted.is_empty() {
        out.nontrivial.push(fp(&(spec.epochs, &spec.present)));
    }
    out
}

pub struct C08;

impl Arm for C08 {
    fn id(&self) -> &'static str {
        "C08"
    }
    fn runs(&self, tier: Tier) -> u64 {
        match tier {
            Tier::Quick => 4000,
            Tier::Thorough => 150_000,
        }
    }
    fn gen(&self, rng: &mut Rng, tier: Tier, _i: u64) -> Value {
        serde_json::to_value(gen(rng, tier)).unwrap()
    }
    fn run(&self, spec_v: &Value, chooser: &ChooserSpec, log: bool) -> RunReport {
        let mut rep = RunReport::default();
        let spec: Spec = match serde_json::from_value(spec_v.clone()) {
            Ok(s) => s,
            Err(e) => {
                rep.harness_error = Some(format!("bad spec: {e}"));
                return rep;
            }
        };
        let sample = json!({"cfg": format!("{:?}", spec.cfg), "epochs": spec.epochs, "present_leaves": spec.present.iter().map(|(f, v)| format!("{}({v})", if *f { "fresh" } else { "stale" })).collect::<Vec<_>>()});
        let res = match spec.cfg {
            Cfg::WhatsApp => sched::run_sim(SimCfg::default(), chooser, log, run_t::<akd::WhatsAppV1Configuration>(spec)),
            Cfg::Experimental => sched::run_sim(SimCfg::default(), chooser, log, run_t::<akd::ExperimentalConfiguration<akd::ExampleLabel>>(spec)),
        };
        if let Some(o) = rep.absorb(res) {
            rep.checks = o.checks;
            for (k, c) in o.probes {
                rep.probe_n(&k, c);
            }
            rep.nontrivial = o.nontrivial;
            rep.harness_error = rep.harness_error.take().or(o.herr);
            for v in o.violations {
                rep.violate(v);
            }
        }
        rep.sample = Some(sample);
        rep
    }
    fn shrink(&self, spec: &Value) -> Vec<Value> {
        let mut out = crate::harness::drop_candidates(spec, &["present"]);
        let e = spec["epochs"].as_u64().unwrap_or(1);
        let maxv = spec["present"].as_array().map(|a| a.iter().filter_map(|x| x[1].as_u64()).max().unwrap_or(1)).unwrap_or(1);
        if e > maxv.max(1) {
            let mut c = spec.clone();
            c["epochs"] = json!(e - 1);
            out.push(c);
        }
        if spec["filler_per_epoch"] != json!(0) {
            let mut c = spec.clone();
            c["filler_per_epoch"] = json!(0);
            out.push(c);
        }
        out
    }
    fn rule(&self) -> String {
        "one case = one real tree built by a (possibly dishonest) publisher over E <= 20 epochs: a seeded set S of fresh(v)/stale(v) leaves of one label (honest prefix 1..n plus isolated later leaves, prefixes with gaps at marker versions, random subsets; version v placed in epoch v, stale(v) with v+1) among filler leaves. Inside the tree EVERY history claim [s,n] (Complete when s=1, MostRecent(n-s+1) otherwise) and EVERY lookup claim m is assembled from real membership / honest non-membership proofs wherever the tree allows - and every history claim a second time with the parts the tree cannot support simply left out (previous-version part of a version whose predecessor was never retired, absent past markers, present future markers) - and goes through the real verifiers. Oracle: at most one latest version is accepted from history proofs; if a complete history with latest n is accepted, every accepted lookup has version n. The (s,n,m) space inside one tree is walked completely; the search is over (E, S). non-trivial = at least one claim verifies; distinct = distinct (E, S)".into()
    }
    fn assumptions(&self) -> Vec<String> {
        vec![
            "claims are assembled from what the tree contains, complete or with unsupported optional parts omitted; forged sub-proofs (wrong anchors, tampered hashes) are C05-C07's subject".into(),
            "bounded exhaustive enumeration of all (E, n, m, S) as the quantifier words it would be model checking; S is sampled".into(),
        ]
    }
}
