//! C01, C02, C03, C04, C20: history arm with different emphasis, budgets and owned oracles.

use crate::harness::{Arm, RunReport, Tier};
use crate::histarm::{gen_big_hist_spec, gen_hist_spec, run_hist, shrink_hist, Checks, GenProfile};
use crate::rng::{ChooserSpec, Rng};
use serde_json::Value;

pub struct HistArm {
    id: &'static str,
}

pub fn arms() -> Vec<Box<dyn Arm>> {
    ["C01", "C02", "C03", "C04", "C20"].iter().map(|id| Box::new(HistArm { id }) as Box<dyn Arm>).collect()
}

fn owns(id: &str, class: &str) -> bool {
    match id {
        "C01" => class.starts_with("c01_") || class == "akd_panic" || class == "memory_rs_disagrees_with_shadow",
        "C02" => class.starts_with("c02_") || class == "akd_panic" || class == "readonly_open_failed",
        "C03" => class.starts_with("c03_") || class == "akd_panic" || class == "readonly_open_failed",
        "C04" => class.starts_with("c04_") || class == "akd_panic" || class == "readonly_open_failed",
        "C20" => class.starts_with("c20_") || class == "akd_panic" || class.starts_with("c02_") || class.starts_with("c03_") || class.starts_with("c04_"),
        _ => false,
    }
}

impl Arm for HistArm {
    fn id(&self) -> &'static str {
        self.id
    }
    fn runs(&self, tier: Tier) -> u64 {
        match (self.id, tier) {
            ("C01", Tier::Quick) => 8000,
            ("C01", Tier::Thorough) => 150_000,
            ("C02", Tier::Quick) => 2000,
            ("C02", Tier::Thorough) => 20_000,
            ("C03", Tier::Quick) => 800,
            ("C03", Tier::Thorough) => 4_000,
            ("C04", Tier::Quick) => 2000,
            ("C04", Tier::Thorough) => 8_000,
            ("C20", Tier::Quick) => 800,
            ("C20", Tier::Thorough) => 6_000,
            _ => 100,
        }
    }
    fn gen(&self, rng: &mut Rng, tier: Tier, _index: u64) -> Value {
        let thorough = tier == Tier::Thorough;
        if self.id == "C20" && rng.chance(1, 3) {
            // concurrent variant: tombstoning tasks interleaved with a publish and with readers
            return serde_json::json!({"concurrent": crate::props::c13::gen_with_tombstones(rng, tier)});
        }
        if self.id == "C01" && rng.chance(1, 250) {
            // "any batch sizes": a history whose batches hold hundreds to thousands of entries
            return serde_json::to_value(gen_big_hist_spec(rng, Checks { c01: true, every: 1, ..Default::default() })).unwrap();
        }
        let (prof, checks) = match self.id {
            "C01" => (
                GenProfile { max_labels: 12, max_epochs: if thorough { 40 } else { 24 }, max_batch: 12, tombstones: false, restarts: true, clock: true },
                Checks { c01: true, every: 1, ..Default::default() },
            ),
            "C02" => (
                GenProfile { max_labels: 10, max_epochs: if thorough { 40 } else { 20 }, max_batch: 8, tombstones: false, restarts: true, clock: true },
                Checks { c02: true, every: if thorough { 1 } else { 3 }, read_only: rng.chance(1, 3), ..Default::default() },
            ),
            "C03" => (
                GenProfile { max_labels: 8, max_epochs: if thorough { 36 } else { 18 }, max_batch: 6, tombstones: false, restarts: true, clock: true },
                Checks { c03: true, every: if thorough { 1 } else { 3 }, read_only: rng.chance(1, 3), ..Default::default() },
            ),
            "C04" => (
                GenProfile { max_labels: 8, max_epochs: if thorough { 16 } else { 10 }, max_batch: 6, tombstones: false, restarts: true, clock: true },
                Checks { c04: true, every: if thorough { 2 } else { 4 }, read_only: rng.chance(1, 3), audit_pairs: if thorough { 0 } else { 6 }, ..Default::default() },
            ),
            _ => (
                GenProfile { max_labels: 6, max_epochs: if thorough { 20 } else { 12 }, max_batch: 5, tombstones: true, restarts: true, clock: true },
                Checks { c20: true, every: if thorough { 2 } else { 4 }, audit_pairs: 3, ..Default::default() },
            ),
        };
        serde_json::to_value(gen_hist_spec(rng, &prof, checks)).unwrap()
    }
    fn run(&self, spec: &Value, chooser: &ChooserSpec, log: bool) -> RunReport {
        let id = self.id;
        if let Some(c) = spec.get("concurrent") {
            let mut rep = crate::props::c13::run_spec_value(c, chooser, log, "c20c_");
            rep.probe("concurrent_variant_run");
            if let Some(o) = rep.spec_override.take() {
                rep.spec_override = Some(serde_json::json!({"concurrent": o}));
            }
            return rep;
        }
        let mut rep = run_hist(spec, chooser, log, true, &move |c| owns(id, c));
        if let Some(n) = spec.get("universe").and_then(|u| u.as_array()).map(|u| u.len()).filter(|n| *n > 100) {
            rep.probe("large_batch_history");
            rep.probe(&format!("large_batch_history_labels_ge_{}", if n >= 2048 { 2048 } else if n >= 1024 { 1024 } else if n >= 512 { 512 } else { 128 }));
        }
        rep
    }
    fn shrink(&self, spec: &Value) -> Vec<Value> {
        if let Some(c) = spec.get("concurrent") {
            return crate::props::c13::C13.shrink(c).into_iter().map(|x| serde_json::json!({"concurrent": x})).collect();
        }
        shrink_hist(spec)
    }
    fn rule(&self) -> String {
        let base = "one case = one seeded publish history (labels from a pool with empty/1-byte/4KiB/prefix-related/non-UTF-8 shapes; values incl. empty=TOMBSTONE, 4KiB, repeated; batches of 0..12 incl. no-op re-submissions, empty batches and batches repeating a label; restarts and clock jumps interleaved) executed on the real Directory over SimDb under a seeded scheduling policy (parallel insertion/preload tasks interleaved at storage-operation granularity, H2 points in a random subset of runs); non-trivial = the history contains at least one update of an existing label and at least one insert of a new label after the first epoch; distinct = distinct operation sequences (hash of the op list)";
        match self.id {
            "C01" => format!("{base}; one case in 250 instead has LARGE batches (127 .. 3000 entries: sizes around 2^7 .. 2^11; inserts, then updates + unchanged re-submissions + inserts in one batch, then a small batch). Oracle after every publish: returned (epoch, root hash) = model (epoch = number of value-changing publishes; hash = from-scratch canonical trie over fresh/stale leaves with formulas re-implemented on blake3), get_epoch_hash agrees, no-op publishes leave storage byte-identical, duplicate-label batches are refused without effect."),
            "C02" => format!("{base}. Oracle at checked epochs: every label of the universe is looked up (proof -> protobuf bytes -> proof -> lookup_verify under the directory's public key against the returned epoch hash); result must equal the model's (value, version, epoch); unpublished labels must fail; batch lookups over seeded subsets (all labels, duplicates, with an unpublished label) must agree per label."),
            "C03" => format!("{base}. Oracle at checked epochs: key_history for every label and Complete, MostRecent(1,2,k-1,k,k+1,1000) through the wire and key_history_verify with the same parameter must equal the model's newest-first slice; unpublished labels must fail."),
            "C04" => format!("{base}. Oracle at checked epochs: audit(s,e) for all pairs (thorough) or adjacent + s=0 + seeded pairs (quick), through the wire and as per-epoch AuditBlobs, must verify with audit_verify against the MODEL's root hashes s..=e; s>=e and e>current must be refused."),
            _ => format!("{base}; additionally tombstone operations at seeded points with cut-off before the label's latest update, followed by further publishes. Oracle: epoch hash unchanged by tombstoning; all lookups, histories of other labels and audits still verify to the model; the label's history under AllowMissingValues equals the model with tombstoned values empty; the default verifier rejects exactly the slices containing a tombstoned, originally non-empty entry."),
        }
    }
    fn assumptions(&self) -> Vec<String> {
        vec![
            "blake3 collision resistance; ECVRF (prove, proof->output) trusted as a primitive".into(),
            "bounds: <= 12 labels, <= 40 epochs, <= 12 entries per batch; in the large-batch cases of C01 <= 3840 labels, 3 epochs, <= 3100 entries per batch".into(),
            "storage stub is record-atomic; no storage faults in this arm".into(),
            "sampling, not proof: a clean batch is evidence for the explored seeds only".into(),
        ]
    }
}
