//! C05: tree membership / non-membership proofs — completeness through the honest prover,
//! soundness against a Byzantine server that assembles proofs from real nodes.

use crate::byz::{bit_at, TreeView};
use crate::harness::{Arm, RunReport, Tier, Violation};
use crate::histarm::{gen_cache, gen_policy, make_manager, par_opt, CacheSpec};
use crate::model::{root_hash, Cfg, Leaf, ModelCfg, H32};
use crate::rng::{fp, ChooserSpec, Rng};
use crate::sched::{self, Policy, SimCfg};
use crate::simdb::SimStore;
use akd::append_only_zks::{AzksParallelismConfig, InsertMode};
use akd::tree_node::TreeNodeType;
use akd::verify::{verify_membership_for_tests_only as vmem, verify_nonmembership_for_tests_only as vnon};
use akd::{Azks, AzksElement, AzksValue, Direction, MembershipProof, NodeLabel, NonMembershipProof};
use serde::{Deserialize, Serialize};
use serde_json::{json, Value};

#[derive(Clone, Debug, Serialize, Deserialize)]
pub struct Spec {
    pub cfg: Cfg,
    pub par_insert: u32,
    pub cache: CacheSpec,
    pub policy: Policy,
    pub h2_mask: u16,
    /// leaf sets inserted per epoch: (label, value)
    pub batches: Vec<Vec<(H32, H32)>>,
    /// candidate query labels (members are filtered out at run time)
    pub queries: Vec<H32>,
    pub mut_seed: u64,
    pub mutations: u32,
}

const BOUNDARY_BITS: [u32; 18] = [0, 1, 2, 6, 7, 8, 9, 15, 16, 17, 31, 32, 63, 64, 127, 128, 254, 255];

fn flip(mut l: H32, i: u32) -> H32 {
    l[(i / 8) as usize] ^= 1 << (7 - (i % 8));
    l
}

fn rand32(rng: &mut Rng) -> H32 {
    let b = rng.bytes(32);
    let mut a = [0u8; 32];
    a.copy_from_slice(&b);
    a
}

pub fn gen_leaf_labels(rng: &mut Rng, n: usize) -> Vec<H32> {
    let mut set: std::collections::BTreeSet<H32> = Default::default();
    let bases: Vec<H32> = (0..rng.range(1, 3)).map(|_| rand32(rng)).collect();
    let one_sided = rng.chance(1, 6);
    let mut guard = 0;
    while set.len() < n && guard < 10 * n + 10 {
        guard += 1;
        let mut l = match rng.below(4) {
            0 => rand32(rng),
            _ => {
                // share a prefix of chosen length with a base / an existing member: flip exactly one bit
                let base = if !set.is_empty() && rng.chance(1, 2) {
                    *set.iter().nth(rng.below(set.len() as u64) as usize).unwrap()
                } else {
                    *rng.pick(&bases)
                };
                let i = if rng.chance(2, 3) { *rng.pick(&BOUNDARY_BITS) } else { rng.below(256) as u32 };
                flip(base, i)
            }
        };
        if one_sided {
            l[0] &= 0x7f; // everything under the left child of the root; right side stays empty
        }
        set.insert(l);
    }
    set.into_iter().collect()
}

fn gen(rng: &mut Rng, tier: Tier) -> Spec {
    let max = if tier == Tier::Thorough { 64 } else { 32 };
    let n = match rng.below(10) {
        0 => 0,
        1 => 1,
        2 => 2,
        _ => rng.range(3, max) as usize,
    };
    let mut labels = gen_leaf_labels(rng, n);
    rng.shuffle(&mut labels);
    let nb = rng.range(1, 4) as usize;
    let mut batches: Vec<Vec<(H32, H32)>> = vec![vec![]; nb];
    for l in labels.iter() {
        let b = rng.below(nb as u64) as usize;
        batches[b].push((*l, rand32(rng)));
    }
    batches.retain(|b| !b.is_empty());
    let mut queries = vec![];
    for _ in 0..3 {
        queries.push(rand32(rng));
    }
    for l in labels.iter().take(6) {
        for i in BOUNDARY_BITS.iter() {
            if rng.chance(1, 2) {
                queries.push(flip(*l, *i));
            }
        }
        for _ in 0..3 {
            queries.push(flip(*l, rng.below(256) as u32));
        }
    }
    // a query on the other side of the root
    if let Some(l) = labels.first() {
        queries.push(flip(*l, 0));
    }
    Spec {
        cfg: if rng.chance(1, 2) { Cfg::WhatsApp } else { Cfg::Experimental },
        par_insert: *rng.pick(&[0, 0, 2, 4]),
        cache: gen_cache(rng),
        policy: gen_policy(rng),
        h2_mask: if rng.chance(1, 4) { (rng.next_u64() & 0x7ff) as u16 } else { 0 },
        batches,
        queries,
        mut_seed: rng.next_u64(),
        mutations: if tier == Tier::Thorough { 200 } else { 80 },
    }
}

#[derive(Default)]
struct Out {
    violations: Vec<Violation>,
    checks: u64,
    probes: Vec<(&'static str, u64)>,
    nontrivial: Vec<u64>,
    herr: Option<String>,
}
impl Out {
    fn v(&mut self, class: &str, d: String) {
        if self.violations.len() < 8 {
            self.violations.push(Violation::new(class, d));
        }
    }
    fn p(&mut self, n: &'static str) {
        match self.probes.iter_mut().find(|(k, _)| *k == n) {
            Some((_, c)) => *c += 1,
            None => self.probes.push((n, 1)),
        }
    }
}

fn nlabel(l: &H32) -> NodeLabel {
    NodeLabel::new(*l, 256)
}

/// Is this verifying membership proof a true statement about the leaf set?
fn membership_true(cfg: Cfg, leaves: &[Leaf], p: &MembershipProof) -> bool {
    if p.label.label_len != 256 {
        return true; // statement is about 256-bit labels only
    }
    leaves.iter().any(|l| l.label == p.label.label_val && cfg.leaf_hash(&l.commitment, l.epoch) == p.hash_val.0)
}

async fn run_t<TC: ModelCfg>(spec: Spec) -> Out {
    let mut out = Out::default();
    let cfg = TC::CFG;
    let store = SimStore::new();
    let mgr = make_manager(store.handle(0), &spec.cache);
    let par = AzksParallelismConfig { insertion: par_opt(spec.par_insert), preload: par_opt(spec.par_insert) };
    let mut azks = match Azks::new::<TC, _>(&mgr).await {
        Ok(a) => a,
        Err(e) => {
            out.herr = Some(format!("Azks::new: {e}"));
            return out;
        }
    };
    let mut leaves: Vec<Leaf> = vec![];
    for (i, b) in spec.batches.iter().enumerate() {
        let elems: Vec<AzksElement> = b.iter().map(|(l, v)| AzksElement { label: nlabel(l), value: AzksValue(*v) }).collect();
        if let Err(e) = azks.batch_insert_nodes::<TC, _>(&mgr, elems, InsertMode::Directory, par).await {
            out.v("c05_insert_err", format!("batch_insert_nodes failed: {e}"));
            return out;
        }
        for (l, v) in b {
            leaves.push(Leaf { label: *l, commitment: *v, epoch: i as u64 + 1 });
        }
    }
    let root = match azks.get_root_hash::<TC, _>(&mgr).await {
        Ok(r) => r,
        Err(e) => {
            out.v("c05_root_err", format!("{e}"));
            return out;
        }
    };
    out.checks += 1;
    let mroot = root_hash(cfg, &leaves);
    if root != mroot {
        out.v("c05_tree_hash", format!("tree over {} leaves in {} epochs has root {} but the canonical trie has {}", leaves.len(), spec.batches.len(), hex::encode(root), hex::encode(mroot)));
        return out;
    }
    let view = TreeView::from_snapshot(&store.snapshot());
    let members: std::collections::BTreeSet<H32> = leaves.iter().map(|l| l.label).collect();
    // ---------------- completeness ----------------
    for l in &leaves {
        out.checks += 1;
        match azks.get_membership_proof::<TC, _>(&mgr, nlabel(&l.label)).await {
            Err(e) => out.v("c05_membership_err", format!("member {}: {e}", hex::encode(l.label))),
            Ok(p) => {
                if p.label != nlabel(&l.label) || p.hash_val.0 != cfg.leaf_hash(&l.commitment, l.epoch) {
                    out.v("c05_membership_wrong_leaf", format!("member {}: proof carries label {:?} / hash {}", hex::encode(l.label), p.label, hex::encode(p.hash_val.0)));
                } else if vmem::<TC>(root, &p).is_err() {
                    out.v("c05_membership_not_verifying", format!("member {}", hex::encode(l.label)));
                }
            }
        }
        // the honest non-membership prover asked about a member must not produce a verifying proof
        out.checks += 1;
        if let Ok(q) = azks.get_non_membership_proof::<TC, _>(&mgr, nlabel(&l.label)).await {
            if vnon::<TC>(root, &q).is_ok() {
                out.v("c05_nonmembership_of_member_verifies", format!("honest prover output for member {} verifies", hex::encode(l.label)));
            }
        }
    }
    let queries: Vec<H32> = spec.queries.iter().filter(|q| !members.contains(*q)).cloned().collect();
    for q in &queries {
        out.checks += 1;
        match azks.get_non_membership_proof::<TC, _>(&mgr, nlabel(q)).await {
            Err(e) => out.v("c05_nonmembership_err", format!("non-member {}: {e}", hex::encode(q))),
            Ok(p) => {
                if p.label != nlabel(q) {
                    out.v("c05_nonmembership_wrong_label", format!("non-member {}", hex::encode(q)));
                } else if let Err(e) = vnon::<TC>(root, &p) {
                    out.v("c05_nonmembership_not_verifying", format!("non-member {} ({} leaves): {e}", hex::encode(q), leaves.len()));
                }
                let depth = p.longest_prefix.label_len;
                if depth % 8 == 0 && depth > 0 {
                    out.p("nonmembership_anchor_on_byte_boundary");
                }
                if depth == 0 {
                    out.p("nonmembership_anchor_is_root");
                }
            }
        }
        // the honest membership prover asked about a non-member returns the proof of another node;
        // relabelled to the query it must not verify
        out.checks += 1;
        if let Ok(mut p) = azks.get_membership_proof::<TC, _>(&mgr, nlabel(q)).await {
            if p.label == nlabel(q) {
                out.v("c05_membership_of_nonmember", format!("prover returned a membership proof labelled with non-member {}", hex::encode(q)));
            }
            p.label = nlabel(q);
            if vmem::<TC>(root, &p).is_ok() {
                out.v("c05_relabelled_membership_verifies", format!("non-member {}", hex::encode(q)));
            }
        }
    }
    // ---------------- soundness: every ancestor as claimed longest prefix ----------------
    let mut targets: Vec<(H32, bool)> = leaves.iter().map(|l| (l.label, true)).collect();
    targets.extend(queries.iter().map(|q| (*q, false)));
    for (t, is_member) in &targets {
        let tl = nlabel(t);
        let path = view.path_to(&tl);
        let deepest = path.last().unwrap().label;
        for anchor in &path {
            if anchor.node_type == TreeNodeType::Leaf {
                continue; // a leaf has no children to show
            }
            out.checks += 1;
            let proof = view.nonmembership_at::<TC>(tl, anchor);
            let ok = vnon::<TC>(root, &proof).is_ok();
            if *is_member && ok {
                let mut v = Violation::new(
                    "c05_nonmembership_of_member_accepted",
                    format!("member {} 'proved' absent with anchor of depth {} (deepest matching node has depth {}) in a tree of {} leaves", hex::encode(t), anchor.label.label_len, deepest.label_len, leaves.len()),
                );
                v.facts.insert("anchor_is_ancestor_of_deeper_match".into(), json!(true));
                if out.violations.len() < 8 {
                    out.violations.push(v);
                }
            } else if !*is_member {
                let is_deepest = anchor.label == deepest;
                if is_deepest && !ok {
                    out.v("c05_nonmembership_deepest_rejected", format!("non-member {} anchor depth {}", hex::encode(t), anchor.label.label_len));
                }
                if !is_deepest && ok {
                    out.v("c05_shallow_anchor_accepted", format!("non-member {}: anchor of depth {} accepted although a deeper matching node (depth {}) exists", hex::encode(t), anchor.label.label_len, deepest.label_len));
                }
                if !is_deepest {
                    out.p("shallow_anchor_tried");
                }
            }
            if *is_member {
                out.p("member_ancestor_anchor_tried");
            }
        }
    }
    // ---------------- soundness: seeded single mutations ----------------
    let mut mrng = Rng::new(spec.mut_seed);
    let all_nodes: Vec<&akd::tree_node::TreeNode> = view.nodes.values().collect();
    if !leaves.is_empty() {
        for _ in 0..spec.mutations {
            let a = &leaves[mrng.below(leaves.len() as u64) as usize];
            let an = view.get(&nlabel(&a.label)).unwrap();
            let mut p = view.membership_of::<TC>(an);
            let kind = mrng.below(11);
            match kind {
                0 => {
                    if queries.is_empty() {
                        continue;
                    }
                    p.label = nlabel(mrng.pick(&queries));
                }
                1 => p.label = nlabel(&leaves[mrng.below(leaves.len() as u64) as usize].label),
                2 => {
                    let o = &leaves[mrng.below(leaves.len() as u64) as usize];
                    p.hash_val = AzksValue(cfg.leaf_hash(&o.commitment, o.epoch));
                }
                3 => p.hash_val = AzksValue(cfg.leaf_hash(&a.commitment, if mrng.chance(1, 2) { a.epoch + 1 } else { a.epoch.wrapping_sub(1) })),
                4 => {
                    if p.sibling_proofs.is_empty() {
                        continue;
                    }
                    let i = mrng.below(p.sibling_proofs.len() as u64) as usize;
                    p.sibling_proofs[i].direction = match p.sibling_proofs[i].direction {
                        Direction::Left => Direction::Right,
                        Direction::Right => Direction::Left,
                    };
                }
                5 => {
                    if p.sibling_proofs.is_empty() {
                        continue;
                    }
                    let i = mrng.below(p.sibling_proofs.len() as u64) as usize;
                    let o = all_nodes[mrng.below(all_nodes.len() as u64) as usize];
                    p.sibling_proofs[i].siblings[0] = AzksElement { label: o.label, value: TreeView::value_in_parent::<TC>(o) };
                }
                6 => {
                    if p.sibling_proofs.is_empty() {
                        continue;
                    }
                    let i = mrng.below(p.sibling_proofs.len() as u64) as usize;
                    if mrng.chance(1, 2) {
                        p.sibling_proofs.remove(i);
                    } else {
                        let d = p.sibling_proofs[i].clone();
                        p.sibling_proofs.insert(i, d);
                    }
                }
                7 => {
                    if p.sibling_proofs.is_empty() {
                        continue;
                    }
                    let i = mrng.below(p.sibling_proofs.len() as u64) as usize;
                    let b = mrng.below(256) as u32;
                    if mrng.chance(1, 2) {
                        p.sibling_proofs[i].siblings[0].label.label_val = flip(p.sibling_proofs[i].siblings[0].label.label_val, b);
                    } else {
                        p.sibling_proofs[i].siblings[0].value.0 = flip(p.sibling_proofs[i].siblings[0].value.0, b);
                    }
                }
                8 => {
                    // the commitment without the epoch mixed in (what the leaf record stores)
                    p.hash_val = AzksValue(a.commitment);
                }
                9 => {
                    // the root node's own value presented as the leaf, with no path at all
                    let target = if !queries.is_empty() && mrng.chance(1, 2) { *mrng.pick(&queries) } else { a.label };
                    p = MembershipProof { label: nlabel(&target), hash_val: view.root().hash, sibling_proofs: vec![] };
                }
                _ => {
                    // the real proof of an interior ancestor, relabelled as the member (truncated path)
                    let path = view.path_to(&nlabel(&a.label));
                    if path.len() < 3 {
                        continue;
                    }
                    let anc = path[mrng.range(1, path.len() as u64 - 2) as usize];
                    p = view.membership_of::<TC>(anc);
                    p.label = nlabel(&a.label);
                }
            }
            out.checks += 1;
            if vmem::<TC>(root, &p).is_ok() && !membership_true(cfg, &leaves, &p) {
                out.v("c05_forged_membership_accepted", format!("mutation kind {kind} of the proof of member {} verifies a false statement about label {:?}", hex::encode(a.label), p.label));
            }
        }
    }
    if !queries.is_empty() {
        for _ in 0..spec.mutations {
            let q = mrng.pick(&queries);
            let tl = nlabel(q);
            let path = view.path_to(&tl);
            let deepest = *path.last().unwrap();
            if deepest.node_type == TreeNodeType::Leaf {
                continue;
            }
            let mut p: NonMembershipProof = view.nonmembership_at::<TC>(tl, deepest);
            let kind = mrng.below(6);
            match kind {
                0 => p.longest_prefix_children.swap(0, 1),
                1 => {
                    let o = all_nodes[mrng.below(all_nodes.len() as u64) as usize];
                    let i = mrng.below(2) as usize;
                    p.longest_prefix_children[i] = AzksElement { label: o.label, value: TreeView::value_in_parent::<TC>(o) };
                }
                2 => {
                    let o = all_nodes[mrng.below(all_nodes.len() as u64) as usize];
                    p.longest_prefix_membership_proof = view.membership_of::<TC>(o);
                }
                3 => {
                    // relabel to a member below the same anchor, if any
                    let below: Vec<&Leaf> = leaves.iter().filter(|l| crate::byz::is_prefix(&deepest.label, &nlabel(&l.label))).collect();
                    if below.is_empty() {
                        continue;
                    }
                    p.label = nlabel(&below[mrng.below(below.len() as u64) as usize].label);
                }
                4 => {
                    let o = all_nodes[mrng.below(all_nodes.len() as u64) as usize];
                    p.longest_prefix = o.label;
                }
                _ => {
                    // replace a child by one of its own children (a grandchild of the anchor)
                    let i = mrng.below(2) as usize;
                    let c = if i == 0 { deepest.left_child } else { deepest.right_child };
                    if let Some(ch) = c.and_then(|l| view.get(&l)) {
                        let g = if mrng.chance(1, 2) { ch.left_child } else { ch.right_child };
                        if let Some(gn) = g.and_then(|l| view.get(&l)) {
                            p.longest_prefix_children[i] = AzksElement { label: gn.label, value: TreeView::value_in_parent::<TC>(gn) };
                        } else {
                            continue;
                        }
                    } else {
                        continue;
                    }
                }
            }
            out.checks += 1;
            if vnon::<TC>(root, &p).is_ok() {
                let target_member = members.contains(&p.label.label_val);
                let true_deepest = view.path_to(&p.label).last().unwrap().label;
                if target_member {
                    out.v("c05_forged_nonmembership_accepted", format!("mutation kind {kind}: member {:?} 'proved' absent", p.label));
                } else if p.longest_prefix != true_deepest {
                    out.v("c05_shallow_anchor_accepted", format!("mutation kind {kind}: anchor {:?} is not the deepest matching node {:?}", p.longest_prefix, true_deepest));
                }
            }
        }
    }
    // non-triviality: at least 3 leaves, a member with >= 2 interior ancestors, and a query sharing >= 8 bits with a member
    let deep_member = leaves.iter().any(|l| view.path_to(&nlabel(&l.label)).len() >= 4);
    let close_query = queries.iter().any(|q| leaves.iter().any(|l| (0..8).all(|i| bit_at(q, i) == bit_at(&l.label, i))));
    if leaves.len() >= 3 && deep_member && close_query {
        out.nontrivial.push(fp(&(members.iter().collect::<Vec<_>>(), &queries)));
    }
    if spec.batches.len() > 1 {
        out.p("multi_epoch_tree");
    }
    if leaves.is_empty() {
        out.p("empty_tree");
    }
    out
}

pub struct C05;

impl Arm for C05 {
    fn id(&self) -> &'static str {
        "C05"
    }
    fn runs(&self, tier: Tier) -> u64 {
        match tier {
            Tier::Quick => 6000,
            Tier::Thorough => 150_000,
        }
    }
    fn gen(&self, rng: &mut Rng, tier: Tier, _i: u64) -> Value {
        serde_json::to_value(gen(rng, tier)).unwrap()
    }
    fn run(&self, spec_v: &Value, chooser: &ChooserSpec, log: bool) -> RunReport {
        let mut rep = RunReport::default();
        let spec: Spec = match serde_json::from_value(spec_v.clone()) {
            Ok(s) => s,
            Err(e) => {
                rep.harness_error = Some(format!("bad spec: {e}"));
                return rep;
            }
        };
        let simcfg = SimCfg { policy: spec.policy, h2_mask: spec.h2_mask, ..SimCfg::default() };
        let sample = json!({"cfg": format!("{:?}", spec.cfg), "leaves_per_epoch": spec.batches.iter().map(|b| b.len()).collect::<Vec<_>>(), "queries": spec.queries.len(), "first_leaf": spec.batches.first().and_then(|b| b.first()).map(|l| hex::encode(l.0)), "par_insert": spec.par_insert, "cache": format!("{:?}", spec.cache)});
        let res = match spec.cfg {
            Cfg::WhatsApp => sched::run_sim(simcfg, chooser, log, run_t::<akd::WhatsAppV1Configuration>(spec)),
            Cfg::Experimental => sched::run_sim(simcfg, chooser, log, run_t::<akd::ExperimentalConfiguration<akd::ExampleLabel>>(spec)),
        };
        if let Some(o) = rep.absorb(res) {
            rep.checks = o.checks;
            for (k, c) in o.probes {
                rep.probe_n(k, c);
            }
            rep.nontrivial = o.nontrivial;
            rep.harness_error = rep.harness_error.take().or(o.herr);
            for v in o.violations {
                rep.violate(v);
            }
        }
        rep.sample = Some(sample);
        rep
    }
    fn shrink(&self, spec: &Value) -> Vec<Value> {
        let mut out = vec![];
        // drop leaves from batches, drop queries, simplify configuration
        if let Some(bs) = spec.get("batches").and_then(|b| b.as_array()) {
            for (i, b) in bs.iter().enumerate() {
                let n = b.as_array().map(|a| a.len()).unwrap_or(0);
                let mut chunk = n.div_ceil(2).max(1);
                loop {
                    let mut j = 0;
                    while j < n {
                        let mut c = spec.clone();
                        let arr = c["batches"][i].as_array_mut().unwrap();
                        let end = (j + chunk).min(n);
                        arr.drain(j..end);
                        out.push(c);
                        j = end;
                    }
                    if chunk == 1 {
                        break;
                    }
                    chunk = chunk.div_ceil(2);
                }
            }
        }
        out.extend(crate::harness::drop_candidates(spec, &["queries"]));
        for (k, v) in [("par_insert", json!(0)), ("h2_mask", json!(0)), ("cache", json!("None")), ("policy", json!({"Fifo": 0})), ("mutations", json!(0))] {
            if spec.get(k) != Some(&v) {
                let mut c = spec.clone();
                c[k] = v;
                out.push(c);
            }
        }
        out
    }
    fn rule(&self) -> String {
        "one case = one seeded leaf set (0..64 leaves engineered to share prefixes of every length incl. byte boundaries 7/8/9/255, inserted over 1..4 epochs by the real Azks under a seeded task schedule) with seeded query labels (members with one bit flipped at boundary and random positions, random labels, a label under an empty root side). Completeness: honest proofs verify and carry the model's leaf hash; tree root = canonical-trie model. Soundness: for every target, EVERY node on the path from the root as claimed longest prefix with its real children and real membership proof, plus seeded single mutations (relabel, foreign hash, wrong epoch, direction flip, foreign sibling, dropped/duplicated level, bit flips, swapped/foreign children, foreign anchor) — a verifying proof must assert a true statement and a non-membership anchor must be the deepest matching node. non-trivial = >= 3 leaves, some member with >= 2 interior ancestors below the root, and some query sharing >= 8 leading bits with a member; distinct = distinct (leaf set, query set)".into()
    }
    fn assumptions(&self) -> Vec<String> {
        vec![
            "hash collision resistance: the Byzantine server only re-arranges real nodes, it never inverts blake3".into(),
            "statement is judged for 256-bit target labels (the quantifier); proofs about interior labels are not targets".into(),
            "no schedule dimension in verification itself; the schedule only affects how the tree is built".into(),
            "bounds: <= 64 leaves, <= 4 epochs, mutations sampled (every ancestor enumerated)".into(),
        ]
    }
}
