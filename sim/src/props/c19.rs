//! C19: proofs survive protobuf encoding unchanged; malformed input is rejected cleanly.
//! Wire arm: every proof of a seeded history crosses a byte-level simulated transport which
//! truncates, flips bits, deletes / resizes / duplicates fields of the message tree, or
//! replaces the payload by random bytes.

use crate::harness::{Arm, RunReport, Tier, Violation};
use crate::histarm::{gen_hist_spec, make_manager, par_opt, Checks, GenProfile, HistSpec, Op};
use crate::model::{to_akd_batch, Cfg, Model, ModelCfg, PublishOutcome, SimVrf};
use crate::rng::{fp, ChooserSpec, Rng};
use crate::sched::{self, SimCfg};
use crate::simdb::SimStore;
use crate::wire;
use akd::append_only_zks::AzksParallelismConfig;
use akd::directory::Directory;
use akd::proto::specs::types as pb;
use akd::verify::history::HistoryParams;
use akd::{AkdLabel, HistoryVerificationParams};
use protobuf::Message;
use serde::{Deserialize, Serialize};
use serde_json::{json, Value};
use std::collections::BTreeMap;
use std::convert::TryFrom;
use std::panic::{catch_unwind, AssertUnwindSafe};

#[derive(Clone, Debug, Serialize, Deserialize)]
pub struct Spec {
    pub hist: HistSpec,
    pub fault_seed: u64,
    pub faults_per_proof: u32,
    pub max_proofs: u32,
}

// ---------- a minimal protobuf wire-format tree, enough to edit fields in place ----------

#[derive(Clone, Debug)]
enum Node {
    /// tag bytes + value bytes of a varint / fixed32 / fixed64 field
    Scalar { tag: Vec<u8>, val: Vec<u8>, varint: bool },
    Len { tag: Vec<u8>, payload: Vec<u8>, children: Option<Vec<Node>> },
}

fn read_varint(b: &[u8], i: &mut usize) -> Option<(u64, Vec<u8>)> {
    let start = *i;
    let mut v: u64 = 0;
    let mut shift = 0;
    loop {
        let byte = *b.get(*i)?;
        *i += 1;
        if shift < 64 {
            v |= ((byte & 0x7f) as u64) << shift;
        }
        shift += 7;
        if byte & 0x80 == 0 {
            break;
        }
        if *i - start > 10 {
            return None;
        }
    }
    Some((v, b[start..*i].to_vec()))
}

fn write_varint(mut v: u64) -> Vec<u8> {
    let mut out = vec![];
    loop {
        let byte = (v & 0x7f) as u8;
        v >>= 7;
        if v == 0 {
            out.push(byte);
            break;
        }
        out.push(byte | 0x80);
    }
    out
}

fn parse_tree(b: &[u8], depth: u32) -> Option<Vec<Node>> {
    let mut i = 0;
    let mut out = vec![];
    while i < b.len() {
        let (tag, tag_raw) = read_varint(b, &mut i)?;
        if tag >> 3 == 0 {
            return None;
        }
        match tag & 7 {
            0 => {
                let (_, raw) = read_varint(b, &mut i)?;
                out.push(Node::Scalar { tag: tag_raw, val: raw, varint: true });
            }
            1 => {
                let v = b.get(i..i + 8)?.to_vec();
                i += 8;
                out.push(Node::Scalar { tag: tag_raw, val: v, varint: false });
            }
            5 => {
                let v = b.get(i..i + 4)?.to_vec();
                i += 4;
                out.push(Node::Scalar { tag: tag_raw, val: v, varint: false });
            }
            2 => {
                let (len, _) = read_varint(b, &mut i)?;
                let payload = b.get(i..i.checked_add(len as usize)?)?.to_vec();
                i += len as usize;
                let children = if depth < 8 && !payload.is_empty() { parse_tree(&payload, depth + 1) } else { None };
                out.push(Node::Len { tag: tag_raw, payload, children });
            }
            _ => return None,
        }
    }
    Some(out)
}

fn encode_tree(nodes: &[Node]) -> Vec<u8> {
    let mut out = vec![];
    for n in nodes {
        match n {
            Node::Scalar { tag, val, .. } => {
                out.extend_from_slice(tag);
                out.extend_from_slice(val);
            }
            Node::Len { tag, payload, children } => {
                let body = match children {
                    Some(c) => encode_tree(c),
                    None => payload.clone(),
                };
                out.extend_from_slice(tag);
                out.extend_from_slice(&write_varint(body.len() as u64));
                out.extend_from_slice(&body);
            }
        }
    }
    out
}

fn count_nodes(nodes: &[Node]) -> usize {
    nodes.iter().map(|n| 1 + match n { Node::Len { children: Some(c), .. } => count_nodes(c), _ => 0 }).sum()
}

/// apply `edit` to the idx-th node in depth-first order; returns true if applied
fn edit_nth(nodes: &mut Vec<Node>, idx: &mut usize, edit: &dyn Fn(&mut Vec<Node>, usize)) -> bool {
    let mut i = 0;
    while i < nodes.len() {
        if *idx == 0 {
            edit(nodes, i);
            return true;
        }
        *idx -= 1;
        if let Node::Len { children: Some(c), .. } = &mut nodes[i] {
            if edit_nth(c, idx, edit) {
                return true;
            }
        }
        i += 1;
    }
    false
}

#[derive(Clone, Copy, Debug)]
enum Edit {
    Delete,
    Duplicate,
    ShrinkBytes,
    GrowBytes,
    EmptyBytes,
    Grow33,
    VarintHuge,
    VarintZero,
    VarintPlusOne,
}

fn apply_edit(tree: &[Node], which: usize, e: Edit) -> Option<Vec<u8>> {
    let mut t = tree.to_vec();
    let mut idx = which;
    let ok = edit_nth(&mut t, &mut idx, &move |v: &mut Vec<Node>, i: usize| match e {
        Edit::Delete => {
            v.remove(i);
        }
        Edit::Duplicate => {
            let d = v[i].clone();
            v.insert(i, d);
        }
        Edit::ShrinkBytes | Edit::GrowBytes | Edit::EmptyBytes | Edit::Grow33 => {
            if let Node::Len { payload, children, .. } = &mut v[i] {
                let mut body = match children.take() {
                    Some(c) => encode_tree(&c),
                    None => payload.clone(),
                };
                match e {
                    Edit::ShrinkBytes => {
                        body.pop();
                    }
                    Edit::GrowBytes => body.push(0x01),
                    Edit::EmptyBytes => body.clear(),
                    _ => body.resize(33, 0xAB),
                }
                *payload = body;
            }
        }
        Edit::VarintHuge | Edit::VarintZero | Edit::VarintPlusOne => {
            if let Node::Scalar { val, varint: true, .. } = &mut v[i] {
                let mut j = 0;
                let cur = read_varint(val, &mut j).map(|x| x.0).unwrap_or(0);
                *val = match e {
                    Edit::VarintHuge => write_varint(u64::MAX),
                    Edit::VarintZero => write_varint(0),
                    _ => write_varint(cur.wrapping_add(1)),
                };
            }
        }
    });
    if ok {
        Some(encode_tree(&t))
    } else {
        None
    }
}

// ---------- proofs under test ----------

#[derive(Clone)]
enum Item {
    Lookup { label: Vec<u8>, epoch: u64, root: [u8; 32], bytes: Vec<u8> },
    History { label: Vec<u8>, epoch: u64, root: [u8; 32], bytes: Vec<u8> },
    Audit { hashes: Vec<[u8; 32]>, bytes: Vec<u8> },
}

type Verdict = Result<String, String>;

/// decode + verify; Ok(summary of the verified result) / Err(reason). Panics are the caller's to catch.
fn judge_sync<TC: ModelCfg>(item: &Item, bytes: &[u8], pk: &[u8]) -> Option<Verdict> {
    match item {
        Item::Lookup { label, epoch, root, .. } => Some(match wire::dec_lookup(bytes) {
            Err(e) => Err(format!("{e:?}")),
            Ok(p) => akd::client::lookup_verify::<TC>(pk, *root, *epoch, AkdLabel(label.clone()), p).map(|r| format!("{:?}", (r.epoch, r.version, r.value))).map_err(|e| e.to_string()),
        }),
        Item::History { label, epoch, root, .. } => Some(match wire::dec_history(bytes) {
            Err(e) => Err(format!("{e:?}")),
            Ok(p) => akd::client::key_history_verify::<TC>(pk, *root, *epoch, AkdLabel(label.clone()), p, HistoryVerificationParams::Default { history_params: HistoryParams::Complete })
                .map(|l| format!("{:?}", l.iter().map(|r| (r.epoch, r.version, r.value.clone())).collect::<Vec<_>>()))
                .map_err(|e| e.to_string()),
        }),
        Item::Audit { .. } => None,
    }
}

#[derive(Default)]
struct Out {
    violations: Vec<Violation>,
    checks: u64,
    probes: BTreeMap<String, u64>,
    nontrivial: Vec<u64>,
    herr: Option<String>,
}
impl Out {
    fn p(&mut self, n: &str) {
        *self.probes.entry(n.to_string()).or_insert(0) += 1;
    }
    fn v(&mut self, class: &str, d: String) {
        if self.violations.len() < 8 {
            self.violations.push(Violation::new(class, d));
        }
    }
}

macro_rules! rt_component {
    ($out:expr, $val:expr, $pbty:ty, $ty:ty, $name:expr) => {{
        let v: &$ty = $val;
        let m = <$pbty>::from(v);
        let bytes = m.write_to_bytes().unwrap();
        $out.checks += 1;
        match <$pbty>::parse_from_bytes(&bytes).map_err(|e| e.to_string()).and_then(|m2| <$ty>::try_from(&m2).map_err(|e| e.to_string())) {
            Ok(back) if &back == v => {}
            Ok(_) => $out.v("c19_component_roundtrip_differs", format!("{} changed by encode/decode", $name)),
            Err(e) => $out.v("c19_component_roundtrip_failed", format!("{}: {e}", $name)),
        }
    }};
}

fn roundtrip_membership(out: &mut Out, p: &akd::MembershipProof) {
    rt_component!(out, p, pb::MembershipProof, akd::MembershipProof, "MembershipProof");
    rt_component!(out, &p.label, pb::NodeLabel, akd::NodeLabel, "NodeLabel");
    for s in &p.sibling_proofs {
        rt_component!(out, s, pb::SiblingProof, akd::SiblingProof, "SiblingProof");
        rt_component!(out, &s.siblings[0], pb::AzksElement, akd::AzksElement, "AzksElement");
        rt_component!(out, &s.siblings[0].label, pb::NodeLabel, akd::NodeLabel, "NodeLabel(sibling)");
    }
}

async fn run_t<TC: ModelCfg>(spec: Spec) -> Out {
    let mut out = Out::default();
    let h = &spec.hist;
    let mut model = Model::new(TC::CFG);
    let store = SimStore::new();
    let vrf = SimVrf::default();
    let par = AzksParallelismConfig { insertion: par_opt(h.par_insert), preload: par_opt(h.par_preload) };
    let mgr = make_manager(store.handle(0), &h.cache);
    let dir = match Directory::<TC, _, _>::new(mgr.clone(), vrf.clone(), par).await {
        Ok(d) => d,
        Err(e) => {
            out.herr = Some(format!("Directory::new: {e}"));
            return out;
        }
    };
    let pk = dir.get_public_key().await.unwrap().as_bytes().to_vec();
    for op in &h.ops {
        if let Op::Publish(b) = op {
            let oc = model.classify(b);
            let r = dir.publish(to_akd_batch(b)).await;
            model.publish(b);
            if oc == PublishOutcome::Advanced && r.is_err() {
                out.herr = Some(format!("fault-free publish failed: {r:?}"));
                return out;
            }
        }
    }
    let (cur, root) = model.current();
    if cur == 0 {
        return out;
    }
    // ---- collect proofs ----
    let mut rng = Rng::new(spec.fault_seed);
    let mut items: Vec<Item> = vec![];
    let mut labels: Vec<Vec<u8>> = h.universe.iter().filter(|l| model.latest(l).is_some()).cloned().collect();
    rng.shuffle(&mut labels);
    for l in labels.iter().take(spec.max_proofs as usize) {
        if let Ok((p, eh)) = dir.lookup(AkdLabel(l.clone())).await {
            // (a) identity of the round trip, of every component, and of the verification result
            out.checks += 1;
            match wire::send_lookup(&p) {
                Ok(d) => {
                    let a = akd::client::lookup_verify::<TC>(&pk, eh.1, eh.0, AkdLabel(l.clone()), p.clone()).map_err(|e| e.to_string());
                    let b = akd::client::lookup_verify::<TC>(&pk, eh.1, eh.0, AkdLabel(l.clone()), d).map_err(|e| e.to_string());
                    if a != b {
                        out.v("c19_verification_differs_after_roundtrip", format!("lookup: {a:?} vs {b:?}"));
                    }
                }
                Err(e) => out.v("c19_roundtrip", format!("LookupProof: {e:?}")),
            }
            roundtrip_membership(&mut out, &p.existence_proof);
            roundtrip_membership(&mut out, &p.marker_proof);
            rt_component!(out, &p.freshness_proof, pb::NonMembershipProof, akd::NonMembershipProof, "NonMembershipProof");
            roundtrip_membership(&mut out, &p.freshness_proof.longest_prefix_membership_proof);
            items.push(Item::Lookup { label: l.clone(), epoch: eh.0, root: eh.1, bytes: wire::enc_lookup(&p) });
        }
        if let Ok((p, eh)) = dir.key_history(&AkdLabel(l.clone()), HistoryParams::Complete).await {
            out.checks += 1;
            match wire::send_history(&p) {
                Ok(d) => {
                    let vp = HistoryVerificationParams::Default { history_params: HistoryParams::Complete };
                    let a = akd::client::key_history_verify::<TC>(&pk, eh.1, eh.0, AkdLabel(l.clone()), p.clone(), vp).map_err(|e| e.to_string());
                    let b = akd::client::key_history_verify::<TC>(&pk, eh.1, eh.0, AkdLabel(l.clone()), d, vp).map_err(|e| e.to_string());
                    if a != b {
                        out.v("c19_verification_differs_after_roundtrip", format!("history: {a:?} vs {b:?}"));
                    }
                }
                Err(e) => out.v("c19_roundtrip", format!("HistoryProof: {e:?}")),
            }
            for u in &p.update_proofs {
                rt_component!(out, u, pb::UpdateProof, akd::UpdateProof, "UpdateProof");
            }
            for n in &p.non_existence_of_future_marker_proofs {
                rt_component!(out, n, pb::NonMembershipProof, akd::NonMembershipProof, "NonMembershipProof(marker)");
            }
            items.push(Item::History { label: l.clone(), epoch: eh.0, root: eh.1, bytes: wire::enc_history(&p) });
        }
    }
    let s = rng.below(cur);
    let e = rng.range(s + 1, cur);
    if let Ok(p) = dir.audit(s, e).await {
        out.checks += 1;
        if let Err(er) = wire::send_audit(&p) {
            out.v("c19_roundtrip", format!("AppendOnlyProof: {er:?}"));
        }
        for sp in &p.proofs {
            rt_component!(out, sp, pb::SingleAppendOnlyProof, akd::SingleAppendOnlyProof, "SingleAppendOnlyProof");
        }
        items.push(Item::Audit { hashes: (s..=e).map(|i| model.hashes[i as usize]).collect(), bytes: wire::enc_audit(&p) });
        audit_blobs::<TC>(&mut out, &mut rng, &p, (s..=e).map(|i| model.hashes[i as usize]).collect(), spec.faults_per_proof).await;
    }
    let _ = root;
    // ---- (b) faults ----
    for item in &items {
        let bytes = match item {
            Item::Lookup { bytes, .. } | Item::History { bytes, .. } | Item::Audit { bytes, .. } => bytes.clone(),
        };
        // the unmodified encoding must verify (otherwise C02-C04 are broken; not this property's business)
        let original: Verdict = match item {
            Item::Audit { hashes, .. } => match wire::dec_audit(&bytes) {
                Err(e) => Err(format!("{e:?}")),
                Ok(p) => akd::auditor::audit_verify::<TC>(hashes.clone(), p).await.map(|_| "accepted".to_string()).map_err(|e| e.to_string()),
            },
            other => judge_sync::<TC>(other, &bytes, &pk).unwrap(),
        };
        if original.is_err() {
            out.p("original_proof_does_not_verify_(not_judged)");
            continue;
        }
        let tree = parse_tree(&bytes, 0);
        let n_nodes = tree.as_ref().map(|t| count_nodes(t)).unwrap_or(0);
        if tree.is_none() {
            out.herr = Some("the wire-format editor cannot parse an honest encoding".into());
            return out;
        }
        let mut variants: Vec<(String, Vec<u8>)> = vec![];
        // truncation: every length for small encodings, seeded lengths otherwise
        if bytes.len() <= 400 {
            for l in 0..bytes.len() {
                variants.push((format!("truncate@{l}"), bytes[..l].to_vec()));
            }
        } else {
            for _ in 0..spec.faults_per_proof / 3 {
                let l = rng.below(bytes.len() as u64) as usize;
                variants.push((format!("truncate@{l}"), bytes[..l].to_vec()));
            }
            for l in [0usize, 1, 2, bytes.len() - 1] {
                variants.push((format!("truncate@{l}"), bytes[..l].to_vec()));
            }
        }
        for _ in 0..spec.faults_per_proof / 3 {
            let mut b = bytes.clone();
            let i = rng.below(b.len() as u64) as usize;
            b[i] ^= 1 << rng.below(8);
            variants.push((format!("bitflip@{i}"), b));
        }
        for _ in 0..6 {
            let n = rng.range(0, 300) as usize;
            variants.push(("random_bytes".into(), rng.bytes(n)));
        }
        let t = tree.unwrap();
        for _ in 0..spec.faults_per_proof {
            let which = rng.below(n_nodes as u64) as usize;
            let e = *rng.pick(&[Edit::Delete, Edit::Delete, Edit::Duplicate, Edit::ShrinkBytes, Edit::GrowBytes, Edit::EmptyBytes, Edit::Grow33, Edit::VarintHuge, Edit::VarintZero, Edit::VarintPlusOne]);
            if let Some(b) = apply_edit(&t, which, e) {
                if b != bytes {
                    variants.push((format!("{e:?}@field{which}"), b));
                }
            }
        }
        for (what, b) in variants {
            out.checks += 1;
            let kind = what.split('@').next().unwrap_or("").to_string();
            let verdict: Result<Verdict, String> = match item {
                Item::Audit { hashes, .. } => {
                    // decoding is synchronous and guarded; verification of whatever decodes runs in this task
                    match catch_unwind(AssertUnwindSafe(|| wire::dec_audit(&b))) {
                        Err(_) => Err(crate::sched::take_last_panic().unwrap_or_default()),
                        Ok(Err(e)) => Ok(Err(format!("{e:?}"))),
                        Ok(Ok(p)) => Ok(akd::auditor::audit_verify::<TC>(hashes.clone(), p).await.map(|_| "accepted".to_string()).map_err(|e| e.to_string())),
                    }
                }
                other => match catch_unwind(AssertUnwindSafe(|| judge_sync::<TC>(other, &b, &pk).unwrap())) {
                    Err(_) => Err(crate::sched::take_last_panic().unwrap_or_default()),
                    Ok(v) => Ok(v),
                },
            };
            match verdict {
                Err(panic_msg) => {
                    if panic_msg.contains("/repo/") || panic_msg.contains("akd") {
                        out.v("c19_panic", format!("{what}: decoding/verifying a corrupted {} panicked: {panic_msg}", item_name(item)));
                    } else {
                        out.herr = Some(format!("harness panic while judging {what}: {panic_msg}"));
                    }
                }
                Ok(Err(_)) => out.p(&format!("{kind}_rejected")),
                Ok(Ok(res)) => {
                    if Ok(&res) != original.as_ref() {
                        out.v("c19_corrupted_proof_verifies_differently", format!("{what} on a {}: verifies to {res} but the original verifies to {:?}", item_name(item), original));
                    } else {
                        out.p(&format!("{kind}_still_verifies_to_same_result"));
                    }
                }
            }
        }
    }
    if items.len() >= 2 {
        out.nontrivial.push(fp(&(spec.fault_seed, items.len())));
    }
    out
}

// ---------- audit blobs (akd::local_auditing): name <-> string, data <-> proof ----------

fn hex_digest(s: &str) -> Option<[u8; 32]> {
    if s.len() != 64 || !s.is_ascii() {
        return None;
    }
    let mut out = [0u8; 32];
    for i in 0..32 {
        out[i] = u8::from_str_radix(&s[2 * i..2 * i + 2], 16).ok()?;
    }
    Some(out)
}

async fn audit_blobs<TC: ModelCfg>(out: &mut Out, rng: &mut Rng, p: &akd::AppendOnlyProof, hashes: Vec<[u8; 32]>, faults: u32) {
    use akd::local_auditing::{generate_audit_blobs, AuditBlob, AuditBlobName};
    // mismatched lengths are refused, not indexed into
    for bad in [vec![], hashes[..hashes.len() - 1].to_vec(), [hashes.clone(), vec![[7u8; 32]]].concat()] {
        out.checks += 1;
        match catch_unwind(AssertUnwindSafe(|| generate_audit_blobs(bad.clone(), p.clone()))) {
            Err(_) => out.v("c19_panic", format!("generate_audit_blobs with {} hashes for {} epochs panicked: {}", bad.len(), p.epochs.len(), crate::sched::take_last_panic().unwrap_or_default())),
            Ok(Ok(_)) => out.v("c19_audit_blob_mismatched_lengths_accepted", format!("{} hashes for {} epochs", bad.len(), p.epochs.len())),
            Ok(Err(_)) => out.p("blob_mismatched_lengths_rejected"),
        }
    }
    let blobs = match generate_audit_blobs(hashes.clone(), p.clone()) {
        Ok(b) => b,
        Err(e) => {
            out.v("c19_audit_blob_roundtrip", format!("generate_audit_blobs refused an honest proof: {e:?}"));
            return;
        }
    };
    if blobs.len() != p.proofs.len() {
        out.v("c19_audit_blob_roundtrip", format!("{} blobs for {} single proofs", blobs.len(), p.proofs.len()));
        return;
    }
    for (i, blob) in blobs.iter().enumerate() {
        out.checks += 1;
        let want = (p.epochs[i], hashes[i], hashes[i + 1]);
        // (a) name -> string -> name, data -> proof; both must give back exactly what went in
        let name = blob.name.to_string();
        match AuditBlobName::try_from(name.as_str()) {
            Ok(n) if (n.epoch, n.previous_hash, n.current_hash) == want && n == blob.name => {}
            Ok(n) => out.v("c19_audit_blob_roundtrip", format!("blob name {name} parses to epoch {} / {} / {}, the blob was made for epoch {} / {} / {}", n.epoch, hex::encode(n.previous_hash), hex::encode(n.current_hash), want.0, hex::encode(want.1), hex::encode(want.2))),
            Err(e) => out.v("c19_audit_blob_roundtrip", format!("blob name {name} does not parse: {e:?}")),
        }
        match blob.decode() {
            Ok((ep, ph, ch, sp)) => {
                if (ep, ph, ch) != want || sp != p.proofs[i] {
                    out.v("c19_audit_blob_roundtrip", format!("blob of epoch {} decodes to different contents (epoch {ep}, proof equal: {})", want.0, sp == p.proofs[i]));
                } else if let Err(e) = akd::auditor::verify_consecutive_append_only::<TC>(&sp, ph, ch, ep + 1).await {
                    out.v("c19_verification_differs_after_roundtrip", format!("decoded audit blob of epoch {ep} does not verify: {e}"));
                } else {
                    out.p("audit_blob_roundtrip_verified");
                }
            }
            Err(e) => out.v("c19_audit_blob_roundtrip", format!("blob of epoch {} does not decode: {e:?}", want.0)),
        }
        // (b) faulty names: cut, one character replaced / inserted / removed, parts dropped or added
        let mut names: Vec<String> = vec![];
        for _ in 0..faults / 4 {
            let mut c: Vec<char> = name.chars().collect();
            let at = rng.below(c.len() as u64) as usize;
            match rng.below(6) {
                0 => c.truncate(at),
                1 => c[at] = *rng.pick(&['/', 'g', 'G', 'f', '0', '+', '-', ' ', 'x', '\u{e9}']),
                2 => c.insert(at, *rng.pick(&['/', '0', 'a', '+', ' ', '\u{e9}'])),
                3 => {
                    c.remove(at);
                }
                4 => {
                    let parts: Vec<String> = name.split('/').map(|x| x.to_string()).collect();
                    let mut q = parts.clone();
                    match rng.below(4) {
                        0 => {
                            q.remove(rng.below(3) as usize);
                        }
                        1 => q.swap(0, 1),
                        2 => q.push(parts[2].clone()),
                        _ => q[0] = rng.pick(&["18446744073709551616", "+1", "-1", "0x10", "", "01", "1e3"]).to_string(),
                    }
                    c = q.join("/").chars().collect();
                }
                _ => {
                    // a digest of the wrong size: one byte more or less, in hex
                    let mut parts: Vec<String> = name.split('/').map(|x| x.to_string()).collect();
                    let k = 1 + rng.below(2) as usize;
                    if rng.chance(1, 2) {
                        parts[k].truncate(62);
                    } else {
                        parts[k].push_str("00");
                    }
                    c = parts.join("/").chars().collect();
                }
            }
            names.push(c.into_iter().collect());
        }
        for bad in names {
            if bad == name {
                continue;
            }
            out.checks += 1;
            match catch_unwind(AssertUnwindSafe(|| AuditBlobName::try_from(bad.as_str()))) {
                Err(_) => out.v("c19_panic", format!("parsing the blob name {bad:?} panicked: {}", crate::sched::take_last_panic().unwrap_or_default())),
                Ok(Err(_)) => out.p("blob_name_fault_rejected"),
                Ok(Ok(n)) => {
                    // an accepted name must say what the string says: exactly three parts are judged
                    let parts: Vec<&str> = bad.split('/').collect();
                    if parts.len() == 3 {
                        let faithful = parts[0].parse::<u64>().ok() == Some(n.epoch) && hex_digest(parts[1]) == Some(n.previous_hash) && hex_digest(parts[2]) == Some(n.current_hash);
                        if faithful {
                            out.p("blob_name_fault_accepted_faithfully");
                        } else {
                            out.v("c19_audit_blob_name_misparsed", format!("{bad:?} is accepted as epoch {} / {} / {}", n.epoch, hex::encode(n.previous_hash), hex::encode(n.current_hash)));
                        }
                    } else {
                        out.p("blob_name_with_extra_parts_accepted_(not_judged)");
                    }
                }
            }
        }
        // (c) faulty data
        let mut datas: Vec<(String, Vec<u8>)> = vec![];
        for _ in 0..faults / 4 {
            let l = rng.below(blob.data.len().max(1) as u64) as usize;
            datas.push((format!("truncate@{l}"), blob.data[..l].to_vec()));
            if !blob.data.is_empty() {
                let mut b = blob.data.clone();
                let at = rng.below(b.len() as u64) as usize;
                b[at] ^= 1 << rng.below(8);
                datas.push((format!("bitflip@{at}"), b));
            }
        }
        if let Some(t) = parse_tree(&blob.data, 0) {
            let n_nodes = count_nodes(&t);
            for _ in 0..faults / 2 {
                if n_nodes == 0 {
                    break;
                }
                let which = rng.below(n_nodes as u64) as usize;
                let e = *rng.pick(&[Edit::Delete, Edit::Duplicate, Edit::ShrinkBytes, Edit::GrowBytes, Edit::EmptyBytes, Edit::Grow33, Edit::VarintHuge, Edit::VarintZero, Edit::VarintPlusOne]);
                if let Some(b) = apply_edit(&t, which, e) {
                    if b != blob.data {
                        datas.push((format!("{e:?}@field{which}"), b));
                    }
                }
            }
        }
        for (what, data) in datas {
            out.checks += 1;
            let kind = what.split('@').next().unwrap_or("").to_string();
            let fb = AuditBlob { name: blob.name, data };
            match catch_unwind(AssertUnwindSafe(|| fb.decode())) {
                Err(_) => out.v("c19_panic", format!("{what}: decoding a corrupted audit blob panicked: {}", crate::sched::take_last_panic().unwrap_or_default())),
                Ok(Err(_)) => out.p(&format!("blob_{kind}_rejected")),
                Ok(Ok((ep, ph, ch, sp))) => {
                    if (ep, ph, ch) != want {
                        out.v("c19_audit_blob_roundtrip", format!("{what}: the blob's name components changed in decode"));
                    }
                    // whatever decodes either fails verification or verifies the same statement (the only result an audit has)
                    match akd::auditor::verify_consecutive_append_only::<TC>(&sp, ph, ch, ep.saturating_add(1)).await {
                        Ok(()) => out.p(&format!("blob_{kind}_still_verifies_to_same_result")),
                        Err(_) => out.p(&format!("blob_{kind}_rejected")),
                    }
                }
            }
        }
    }
}

fn item_name(i: &Item) -> &'static str {
    match i {
        Item::Lookup { .. } => "LookupProof",
        Item::History { .. } => "HistoryProof",
        Item::Audit { .. } => "AppendOnlyProof",
    }
}

pub struct C19;

impl Arm for C19 {
    fn id(&self) -> &'static str {
        "C19"
    }
    fn runs(&self, tier: Tier) -> u64 {
        match tier {
            Tier::Quick => 1200,
            Tier::Thorough => 6000,
        }
    }
    fn gen(&self, rng: &mut Rng, tier: Tier, _i: u64) -> Value {
        let prof = GenProfile { max_labels: 6, max_epochs: 8, max_batch: 5, tombstones: false, restarts: false, clock: false };
        let mut hist = gen_hist_spec(rng, &prof, Checks::default());
        hist.h2_mask = 0;
        let spec = Spec { hist, fault_seed: rng.next_u64(), faults_per_proof: if tier == Tier::Thorough { 120 } else { 60 }, max_proofs: 2 };
        serde_json::to_value(spec).unwrap()
    }
    fn run(&self, spec_v: &Value, chooser: &ChooserSpec, log: bool) -> RunReport {
        let mut rep = RunReport::default();
        let spec: Spec = match serde_json::from_value(spec_v.clone()) {
            Ok(s) => s,
            Err(e) => {
                rep.harness_error = Some(format!("bad spec: {e}"));
                return rep;
            }
        };
        let simcfg = SimCfg { policy: spec.hist.policy, ..SimCfg::default() };
        let sample = json!({"history": crate::histarm::summarize(&spec.hist), "faults_per_proof": spec.faults_per_proof});
        let res = match spec.hist.cfg {
            Cfg::WhatsApp => sched::run_sim(simcfg, chooser, log, run_t::<akd::WhatsAppV1Configuration>(spec)),
            Cfg::Experimental => sched::run_sim(simcfg, chooser, log, run_t::<akd::ExperimentalConfiguration<akd::ExampleLabel>>(spec)),
        };
        if let Some(o) = rep.absorb(res) {
            rep.checks = o.checks;
            for (k, c) in o.probes {
                rep.probe_n(&k, c);
            }
            rep.nontrivial = o.nontrivial;
            rep.harness_error = rep.harness_error.take().or(o.herr);
            for v in o.violations {
                rep.violate(v);
            }
        }
        rep.sample = Some(sample);
        rep
    }
    fn shrink(&self, spec: &Value) -> Vec<Value> {
        let mut out = vec![];
        let mut c = spec.clone();
        if let Some(ops) = c["hist"]["ops"].as_array() {
            if ops.len() > 1 {
                for cand in crate::harness::drop_candidates(&spec["hist"], &["ops"]) {
                    let mut s2 = spec.clone();
                    s2["hist"] = cand;
                    out.push(s2);
                }
            }
        }
        c["hist"]["cache"] = json!("None");
        out.push(c);
        out
    }
    fn rule(&self) -> String {
        "one case = one seeded publish history (<= 6 labels, <= 8 epochs) on the real Directory; lookup and complete-history proofs of up to 2 labels and one seeded audit range are taken. (a) each proof and each component inside it (NodeLabel, AzksElement, SiblingProof, MembershipProof, NonMembershipProof, UpdateProof, SingleAppendOnlyProof) goes value -> message -> bytes -> message -> value and must be identical; verifying the decoded proof must give the same result as the original. (b) the encoded proof crosses a faulty transport: truncation at every length (<= 400 bytes) or seeded lengths, seeded bit flips, random payloads, and edits of the protobuf field tree at seeded positions (field deleted, duplicated, bytes field shortened / lengthened / emptied / resized to 33 bytes i.e. over-long labels and wrong-size digests, varint set to u64::MAX / 0 / +1). Oracle: decoding + verification never panics (a panic inside akd is the violation, a panic in the harness is a harness error); the result is an error, or a proof that verifies to exactly the original's result. (c) akd::local_auditing: the audit proof is cut into blobs; every blob name goes to its string and back, every blob's data decodes to the same single proof which still verifies; mismatched hash counts are refused; seeded faulty names (cut, character replaced / inserted / removed, parts dropped / swapped / added, epochs such as 2^64, +1, 0x10, digests one byte short or long) never panic and, when a three-part name is accepted, it is accepted as exactly the epoch and the two 32-byte digests its text spells; faulty blob data never panics. non-trivial = at least two proofs were attacked; distinct = distinct (fault seed, proof count)".into()
    }
    fn assumptions(&self) -> Vec<String> {
        vec![
            "panics inside tasks spawned by audit verification surface as join errors (an Err), which is accepted as 'rejected cleanly'".into(),
            "akd::local_auditing is exercised on the audit proof of every case: blob names to strings and back, blob data to proofs and back, faulty names and data".into(),
            "examples/src/wasm_client is not run; the same decode + verify path is exercised through akd_core::proto and akd::client".into(),
        ]
    }
}
