pub mod byzhist;
pub mod c05;
pub mod c08;
pub mod c09;
pub mod c10;
pub mod c11;
pub mod c12;
pub mod c13;
pub mod c14;
pub mod c19;
pub mod hist;
pub mod mgr;

use crate::harness::Arm;

pub fn all_arms() -> Vec<Box<dyn Arm>> {
    let mut v: Vec<Box<dyn Arm>> = vec![];
    v.extend(hist::arms());
    v.push(Box::new(c05::C05));
    v.push(Box::new(byzhist::ByzHist { id: "C06" }));
    v.push(Box::new(byzhist::ByzHist { id: "C07" }));
    v.push(Box::new(c08::C08));
    v.push(Box::new(c09::C09));
    v.push(Box::new(c10::C10));
    v.push(Box::new(c11::C11));
    v.push(Box::new(c12::C12));
    v.push(Box::new(c13::C13));
    v.push(Box::new(mgr::MgrArm { id: "C15" }));
    v.push(Box::new(mgr::MgrArm { id: "C16" }));
    v.push(Box::new(c19::C19));
    v.push(Box::new(c14::C14));
    v
}

pub fn arm_for(id: &str) -> Option<Box<dyn Arm>> {
    all_arms().into_iter().find(|a| a.id() == id)
}
