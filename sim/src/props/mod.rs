pub mod c05;
pub mod c09;
pub mod c10;
pub mod hist;

use crate::harness::Arm;

pub fn all_arms() -> Vec<Box<dyn Arm>> {
    let mut v: Vec<Box<dyn Arm>> = vec![];
    v.extend(hist::arms());
    v.push(Box::new(c05::C05));
    v.push(Box::new(c09::C09));
    v.push(Box::new(c10::C10));
    v
}

pub fn arm_for(id: &str) -> Option<Box<dyn Arm>> {
    all_arms().into_iter().find(|a| a.id() == id)
}
