//! Storage-manager arm.
//! C15: reads inside a transaction see pending writes exactly as after commit.
//! C16: the object cache never changes what a read returns (simulated time, eviction,
//!      rejected writes, flushes, interleaved tasks).

use crate::harness::{Arm, RunReport, Tier, Violation};
use crate::histarm::{make_manager, CacheSpec};
use crate::rng::{fp, ChooserSpec, Rng};
use crate::sched::{self, Policy, SimCfg};
use crate::simdb::{is_azks, SimDb, SimStore};
use akd::errors::StorageError;
use akd::storage::types::{DbRecord, ValueState, ValueStateKey, ValueStateRetrievalFlag};
use akd::storage::StorageManager;
use akd::tree_node::{NodeKey, TreeNodeWithPreviousValue};
use akd::{AkdLabel, AkdValue, Azks, NodeLabel};
use serde::{Deserialize, Serialize};
use serde_json::{json, Value};
use std::collections::{BTreeMap, BTreeSet};
use std::sync::{Arc, Mutex};
use std::time::Duration;

const USERS: [&[u8]; 3] = [b"alice", b"bob", b""];
const N_NODES: usize = 6;
const MAX_EPOCH: u64 = 4;

#[derive(Clone, Debug, Serialize, Deserialize, PartialEq, Eq, PartialOrd, Ord, Hash)]
pub enum Rec {
    Node { idx: usize, serial: u64 },
    Value { user: usize, epoch: u64, serial: u64 },
    Azks { epoch: u64, serial: u64 },
}

#[derive(Clone, Copy, Debug, Serialize, Deserialize, PartialEq, Eq)]
pub enum Flag {
    Version(u64),
    Epoch(u64),
    Leq(u64),
    Max,
    Min,
}

#[derive(Clone, Debug, Serialize, Deserialize)]
pub enum MOp {
    Begin,
    Commit,
    Rollback,
    Set(Rec),
    BatchSet(Vec<Rec>),
    GetNode(usize),
    GetValue(usize, u64),
    GetAzks,
    BatchGetNodes(Vec<usize>),
    BatchGetValues(Vec<(usize, u64)>),
    UserState(usize, Flag),
    UserData(usize),
    UserVersions(Vec<usize>, Flag),
    Flush,
    Advance(u64),
    /// the next database write of this task is rejected as a whole
    RejectNextWrite,
    /// a write that reaches the database NOT through this manager (another process / manager)
    ExternalSet(Rec),
}

#[derive(Clone, Debug, Serialize, Deserialize)]
pub struct Spec {
    pub cache: CacheSpec,
    pub policy: Policy,
    pub h2_mask: u16,
    /// one op list per task (C15: one task; C16 concurrent variant: 2-3 tasks without transactions)
    pub tasks: Vec<Vec<MOp>>,
    pub c16: bool,
    /// C15 only: a second task writes through the same manager while the first one runs transactions to commit
    #[serde(default)]
    pub conc_commit: Option<ConcCommit>,
}

/// Transactions of one task (value-state keys, each written once, epoch record, commit) next to plain writes of a
/// second task (node keys, each written once, after seeded virtual delays). No rollback and no fault: every write that
/// was acknowledged must reach the database, whether it joined the open transaction or went straight through.
#[derive(Clone, Debug, Serialize, Deserialize)]
pub struct ConcCommit {
    pub rounds: Vec<(Vec<Rec>, Rec)>,
    pub other: Vec<(u64, Rec)>,
}

fn version_of(user: usize, epoch: u64) -> u64 {
    // increases with the epoch, is fixed per (user, epoch), and differs from the epoch number
    2 * epoch + user as u64 + 1
}

fn node_label(idx: usize) -> NodeLabel {
    let mut v = [0u8; 32];
    v[0] = (idx as u8) << 5;
    NodeLabel::new(v, 3 + (idx as u32 % 3))
}

fn serial_bytes(serial: u64) -> [u8; 32] {
    let mut h = [0u8; 32];
    h[..8].copy_from_slice(&serial.to_be_bytes());
    h
}

fn build(rec: &Rec) -> DbRecord {
    match rec {
        Rec::Node { idx, serial } => {
            let l = node_label(*idx);
            DbRecord::TreeNode(DbRecord::build_tree_node_with_previous_value(
                l.label_val,
                l.label_len,
                *serial % 7,
                1,
                [0u8; 32],
                0,
                3,
                None,
                None,
                serial_bytes(*serial),
                None,
                None,
                None,
                None,
                None,
                None,
                None,
                None,
            ))
        }
        Rec::Value { user, epoch, serial } => DbRecord::ValueState(DbRecord::build_user_state(
            USERS[*user].to_vec(),
            format!("val-{serial}").into_bytes(),
            version_of(*user, *epoch),
            256,
            serial_bytes(1000 + version_of(*user, *epoch)),
            *epoch,
        )),
        Rec::Azks { epoch, serial } => DbRecord::Azks(DbRecord::build_azks(*epoch, *serial)),
    }
}

fn serial_of(r: &DbRecord) -> u64 {
    match r {
        DbRecord::TreeNode(n) => u64::from_be_bytes(n.latest_node.hash.0[..8].try_into().unwrap()),
        DbRecord::ValueState(v) => std::str::from_utf8(&v.value.0).ok().and_then(|s| s.strip_prefix("val-")).and_then(|s| s.parse().ok()).unwrap_or(u64::MAX),
        DbRecord::Azks(a) => a.num_nodes,
    }
}

fn to_flag(f: Flag) -> ValueStateRetrievalFlag {
    match f {
        Flag::Version(v) => ValueStateRetrievalFlag::SpecificVersion(v),
        Flag::Epoch(e) => ValueStateRetrievalFlag::SpecificEpoch(e),
        Flag::Leq(e) => ValueStateRetrievalFlag::LeqEpoch(e),
        Flag::Max => ValueStateRetrievalFlag::MaxEpoch,
        Flag::Min => ValueStateRetrievalFlag::MinEpoch,
    }
}

fn gen_flag(rng: &mut Rng) -> Flag {
    match rng.below(5) {
        0 => Flag::Version(version_of(rng.below(3) as usize, rng.range(1, MAX_EPOCH))),
        1 => Flag::Epoch(rng.range(1, MAX_EPOCH)),
        2 => Flag::Leq(rng.range(0, MAX_EPOCH + 1)),
        3 => Flag::Max,
        _ => Flag::Min,
    }
}

fn gen_rec(rng: &mut Rng, serial: &mut u64) -> Rec {
    *serial += 1;
    match rng.below(5) {
        0 | 1 => Rec::Node { idx: rng.below(N_NODES as u64) as usize, serial: *serial },
        _ => Rec::Value { user: rng.below(3) as usize, epoch: rng.range(1, MAX_EPOCH), serial: *serial },
    }
}

/// a batch of records with pairwise distinct keys (two records for one key in a single batch have no defined order)
fn gen_batch(rng: &mut Rng, serial: &mut u64) -> Vec<Rec> {
    let mut out: Vec<Rec> = vec![];
    for _ in 0..rng.range(1, 4) {
        let r = gen_rec(rng, serial);
        let k = build(&r).get_full_binary_id();
        if !out.iter().any(|o| build(o).get_full_binary_id() == k) {
            out.push(r);
        }
    }
    out
}

fn gen_read(rng: &mut Rng) -> MOp {
    match rng.below(10) {
        0 => MOp::GetNode(rng.below(N_NODES as u64) as usize),
        1 => MOp::GetValue(rng.below(3) as usize, rng.range(1, MAX_EPOCH)),
        2 => MOp::GetAzks,
        3 => MOp::BatchGetNodes((0..N_NODES).filter(|_| rng.chance(1, 2)).collect()),
        4 => MOp::BatchGetValues((0..rng.range(1, 4)).map(|_| (rng.below(3) as usize, rng.range(1, MAX_EPOCH))).collect()),
        5 | 6 => MOp::UserState(rng.below(3) as usize, gen_flag(rng)),
        7 => MOp::UserData(rng.below(3) as usize),
        _ => MOp::UserVersions((0..3).filter(|_| rng.chance(2, 3)).collect(), gen_flag(rng)),
    }
}

fn gen_conc_commit(rng: &mut Rng) -> Spec {
    let mut serial = 0u64;
    let mut vkeys: Vec<(usize, u64)> = (0..3).flat_map(|u| (1..=MAX_EPOCH).map(move |e| (u, e))).collect();
    rng.shuffle(&mut vkeys);
    let mut rounds = vec![];
    for r in 0..rng.range(1, 3) {
        let mut sets = vec![];
        for _ in 0..rng.range(1, 3) {
            if let Some((user, epoch)) = vkeys.pop() {
                serial += 1;
                sets.push(Rec::Value { user, epoch, serial });
            }
        }
        serial += 1;
        rounds.push((sets, Rec::Azks { epoch: r + 1, serial }));
    }
    let mut nodes: Vec<usize> = (0..N_NODES).collect();
    rng.shuffle(&mut nodes);
    let mut other = vec![];
    for idx in nodes.into_iter().take(rng.range(2, N_NODES as u64) as usize) {
        serial += 1;
        other.push((rng.below(12), Rec::Node { idx, serial }));
    }
    Spec {
        cache: if rng.chance(1, 2) { CacheSpec::None } else { CacheSpec::Default },
        policy: crate::histarm::gen_policy(rng),
        h2_mask: (rng.next_u64() & 0x7ff) as u16,
        tasks: vec![vec![]],
        c16: false,
        conc_commit: Some(ConcCommit { rounds, other }),
    }
}

async fn run_conc_commit(cc: ConcCommit, mgr: StorageManager<SimDb>, store: SimStore) -> Shared {
    let mut sh = Shared::default();
    let acked: Arc<Mutex<Vec<(Vec<u8>, u64, String)>>> = Arc::new(Mutex::new(vec![]));
    let (m2, a2, other) = (mgr.clone(), acked.clone(), cc.other.clone());
    let second = tokio::spawn(async move {
        for (d, r) in other {
            if d > 0 {
                tokio::time::sleep(std::time::Duration::from_millis(d)).await;
            }
            let rec = build(&r);
            let (bin, ser) = (rec.get_full_binary_id(), serial_of(&rec));
            if m2.set(rec).await.is_ok() {
                a2.lock().unwrap().push((bin, ser, format!("{r:?} by the second task")));
            }
        }
    });
    for (sets, azks) in &cc.rounds {
        if !mgr.begin_transaction() {
            sh.herr = Some("begin_transaction refused although this task has none open".into());
            return sh;
        }
        for r in sets {
            let rec = build(r);
            let (bin, ser) = (rec.get_full_binary_id(), serial_of(&rec));
            if mgr.set(rec).await.is_ok() {
                acked.lock().unwrap().push((bin, ser, format!("{r:?} inside the transaction")));
            }
        }
        let _ = mgr.set(build(azks)).await;
        match mgr.commit_transaction().await {
            Ok(_) => sh.p("commit"),
            Err(e) => {
                sh.v("c15_commit_failed_without_fault", format!("commit_transaction failed although no fault was injected: {e}"));
                return sh;
            }
        }
    }
    let _ = second.await;
    for _ in 0..2000 {
        if sched::pending_count() == 0 {
            break;
        }
        tokio::time::sleep(std::time::Duration::from_millis(2)).await;
    }
    sh.p("concurrent_commit_case");
    if mgr.is_transaction_active() {
        sh.v("c15_transaction_left_open", "after the last commit returned".into());
    }
    for (bin, ser, what) in acked.lock().unwrap().iter() {
        sh.checks += 1;
        let applied: Vec<u64> = store.applied_for_key(bin).iter().map(serial_of).collect();
        if !applied.contains(ser) {
            sh.v("c15_acknowledged_write_never_reached_the_database", format!("{what} was answered Ok but the database was never given it (writes the database saw for that key: {applied:?}); commit hands the database exactly the pending records"));
        }
    }
    sh
}

fn gen_c15(rng: &mut Rng, tier: Tier) -> Spec {
    if rng.chance(1, 10) {
        return gen_conc_commit(rng);
    }
    let n = rng.range(20, if tier == Tier::Thorough { 140 } else { 70 });
    let mut ops = vec![];
    let mut serial = 0u64;
    let mut in_tx = false;
    let mut epoch = 0u64;
    for _ in 0..n {
        let k = rng.below(100);
        if !in_tx {
            match k {
                0..=14 => {
                    ops.push(MOp::Begin);
                    in_tx = true;
                }
                15..=17 => ops.push(MOp::Begin), // immediately followed by rollback below to keep structure simple
                18..=34 => ops.push(MOp::Set(gen_rec(rng, &mut serial))),
                35..=44 => ops.push(MOp::BatchSet(gen_batch(rng, &mut serial))),
                _ => ops.push(gen_read(rng)),
            }
            if matches!(ops.last(), Some(MOp::Begin)) && !in_tx {
                in_tx = true;
            }
        } else {
            match k {
                0..=7 => {
                    // commit: the epoch record goes in first (as publish does), the manager must hand it over last
                    epoch += 1;
                    serial += 1;
                    ops.push(MOp::Set(Rec::Azks { epoch, serial }));
                    ops.push(MOp::Commit);
                    in_tx = false;
                }
                8..=12 => {
                    ops.push(MOp::Rollback);
                    in_tx = false;
                }
                13..=15 => ops.push(MOp::Begin), // begin while open: must be refused
                16..=34 => ops.push(MOp::Set(gen_rec(rng, &mut serial))),
                35..=44 => ops.push(MOp::BatchSet(gen_batch(rng, &mut serial))),
                _ => ops.push(gen_read(rng)),
            }
        }
    }
    Spec {
        cache: match rng.below(3) {
            0 => CacheSpec::None,
            1 => CacheSpec::Default,
            _ => CacheSpec::Custom { lifetime_ms: *rng.pick(&[2, 10]), limit_bytes: if rng.chance(1, 2) { Some(400) } else { None }, clean_ms: 2 },
        },
        policy: Policy::Fifo(0),
        h2_mask: 0,
        tasks: vec![ops],
        c16: false,
        conc_commit: None,
    }
}

fn gen_c16(rng: &mut Rng, tier: Tier) -> Spec {
    let concurrent = rng.chance(1, 2);
    let ntasks = if concurrent { rng.range(2, 3) } else { 1 };
    let lifetime = *rng.pick(&[2u64, 3, 10, 100, 30_000]);
    let cache = CacheSpec::Custom {
        lifetime_ms: lifetime,
        limit_bytes: match rng.below(3) {
            0 => None,
            1 => Some(*rng.pick(&[300, 700])),
            _ => Some(5000),
        },
        clean_ms: *rng.pick(&[2, 5, 15_000]),
    };
    let mut serial = 0u64;
    let mut tasks = vec![];
    for _ in 0..ntasks {
        let n = rng.range(15, if tier == Tier::Thorough { 90 } else { 45 });
        let mut ops = vec![];
        let mut in_tx = false;
        let mut epoch = 0;
        for _ in 0..n {
            let k = rng.below(100);
            match k {
                0..=5 if !concurrent && !in_tx => {
                    ops.push(MOp::Begin);
                    in_tx = true;
                }
                0..=5 if !concurrent && in_tx => {
                    if rng.chance(2, 3) {
                        epoch += 1;
                        serial += 1;
                        ops.push(MOp::Set(Rec::Azks { epoch, serial }));
                        if rng.chance(1, 4) {
                            ops.push(MOp::RejectNextWrite);
                        }
                        ops.push(MOp::Commit);
                    } else {
                        ops.push(MOp::Rollback);
                    }
                    in_tx = false;
                }
                6..=25 => {
                    if rng.chance(1, 6) && !in_tx {
                        ops.push(MOp::RejectNextWrite);
                    }
                    if rng.chance(1, 8) && !in_tx {
                        serial += 1;
                        epoch += 1;
                        ops.push(MOp::Set(Rec::Azks { epoch, serial }));
                    } else {
                        ops.push(MOp::Set(gen_rec(rng, &mut serial)));
                    }
                }
                26..=35 => {
                    if rng.chance(1, 6) && !in_tx {
                        ops.push(MOp::RejectNextWrite);
                    }
                    ops.push(MOp::BatchSet(gen_batch(rng, &mut serial)));
                }
                36..=45 => ops.push(MOp::Advance(*rng.pick(&[1, 2, 3, lifetime.saturating_sub(1).max(1), lifetime, lifetime + 1, 10 * lifetime]))),
                46..=49 => ops.push(MOp::Flush),
                50..=55 if !concurrent => {
                    // only keys that are never part of a transaction commit race: nodes and value states
                    let r = gen_rec(rng, &mut serial);
                    ops.push(MOp::ExternalSet(r));
                }
                _ => {
                    // reads of single records and batches are what the statement is about
                    let r = match rng.below(7) {
                        // user-state queries go to the database but FILL the cache with what they found
                        6 => MOp::UserState(rng.below(3) as usize, gen_flag(rng)),
                        0 | 1 => MOp::GetNode(rng.below(N_NODES as u64) as usize),
                        2 => MOp::GetValue(rng.below(3) as usize, rng.range(1, MAX_EPOCH)),
                        3 => MOp::GetAzks,
                        4 => MOp::BatchGetNodes((0..N_NODES).filter(|_| rng.chance(1, 2)).collect()),
                        _ => MOp::BatchGetValues((0..rng.range(1, 4)).map(|_| (rng.below(3) as usize, rng.range(1, MAX_EPOCH))).collect()),
                    };
                    ops.push(r);
                }
            }
        }
        if in_tx {
            ops.push(MOp::Rollback);
        }
        tasks.push(ops);
    }
    Spec {
        cache,
        policy: if concurrent { crate::histarm::gen_policy(rng) } else { Policy::Fifo(0) },
        h2_mask: if concurrent { (rng.next_u64() & 0x7ff) as u16 | 0x0f } else { 0 },
        tasks,
        c16: true,
        conc_commit: None,
    }
}

/// what the driver knows about a key in concurrent mode
#[derive(Default, Clone)]
struct KeyHist {
    /// serial -> step at which the write call returned Ok
    done: BTreeMap<u64, u64>,
    rejected: BTreeSet<u64>,
}

#[derive(Default)]
struct Shared {
    violations: Vec<Violation>,
    checks: u64,
    probes: BTreeMap<String, u64>,
    /// records of the open transaction, by key
    pending: BTreeMap<Vec<u8>, DbRecord>,
    in_tx: bool,
    hist: BTreeMap<Vec<u8>, KeyHist>,
    states: Vec<u64>,
    herr: Option<String>,
    /// key -> virtual ms at which the database value was last changed behind the manager's back
    ext: BTreeMap<Vec<u8>, u64>,
    lifetime_ms: u64,
    t0: Option<tokio::time::Instant>,
}
impl Shared {
    fn p(&mut self, n: &str) {
        *self.probes.entry(n.to_string()).or_insert(0) += 1;
    }
    fn v(&mut self, class: &str, d: String) {
        if self.violations.len() < 8 {
            self.violations.push(Violation::new(class, d));
        }
    }
}

fn norm_states(mut v: Vec<ValueState>) -> Vec<ValueState> {
    v.sort_by_key(|s| s.epoch);
    v
}

/// the same read through a fresh, cache-less manager on "storage + pending records"
async fn reference(store: &SimStore, pending: &BTreeMap<Vec<u8>, DbRecord>) -> StorageManager<SimDb> {
    let mut snap = store.snapshot();
    for (k, r) in pending {
        snap.insert(k.clone(), r.clone());
    }
    let s2 = SimStore::from_records(&snap).await;
    StorageManager::new_no_cache(s2.handle(99))
}

fn nf<T>(r: Result<T, StorageError>) -> Result<Option<T>, String> {
    match r {
        Ok(x) => Ok(Some(x)),
        Err(StorageError::NotFound(_)) => Ok(None),
        Err(e) => Err(e.to_string()),
    }
}

#[allow(clippy::too_many_arguments)]
async fn do_read(op: &MOp, mgr: &StorageManager<SimDb>, store: &SimStore, sh: &Arc<Mutex<Shared>>, concurrent: bool, tag: &str) {
    let start_step = sched::current_step();
    let (pending, in_tx) = {
        let g = sh.lock().unwrap();
        (g.pending.clone(), g.in_tx)
    };
    // single-key / batch reads, comparable by serial in concurrent mode
    let mut got_records: Option<Vec<(Vec<u8>, Option<DbRecord>)>> = None;
    let mut mismatch: Option<String> = None;
    macro_rules! differential {
        ($call:expr, $refcall:expr, $norm:expr) => {{
            let got = $call;
            if !concurrent {
                let rm = sched::ungated(reference(store, &pending)).await;
                let want = sched::ungated($refcall(&rm)).await;
                let (a, b) = ($norm(got), $norm(want));
                if a != b {
                    mismatch = Some(format!("{op:?}: through the manager {a:?}, same read on committed storage {b:?}"));
                }
            }
        }};
    }
    match op {
        MOp::GetNode(i) => {
            let key = NodeKey(node_label(*i));
            let got = mgr.get::<TreeNodeWithPreviousValue>(&key).await;
            let bin = build(&Rec::Node { idx: *i, serial: 0 }).get_full_binary_id();
            match nf(got) {
                Ok(g) => {
                    if !concurrent {
                        let rm = sched::ungated(reference(store, &pending)).await;
                        let want = nf(sched::ungated(rm.get::<TreeNodeWithPreviousValue>(&key)).await);
                        if Ok(g.clone()) != want {
                            mismatch = Some(format!("{op:?}: manager returned serial {:?}, storage(+pending) holds {:?}", g.as_ref().map(serial_of), want.map(|w| w.as_ref().map(serial_of))));
                        }
                    }
                    got_records = Some(vec![(bin, g)]);
                }
                Err(_) => sh.lock().unwrap().p("read_failed"),
            }
        }
        MOp::GetValue(u, e) => {
            let key = ValueStateKey(USERS[*u].to_vec(), *e);
            let got = mgr.get::<ValueState>(&key).await;
            let bin = build(&Rec::Value { user: *u, epoch: *e, serial: 0 }).get_full_binary_id();
            match nf(got) {
                Ok(g) => {
                    if !concurrent {
                        let rm = sched::ungated(reference(store, &pending)).await;
                        let want = nf(sched::ungated(rm.get::<ValueState>(&key)).await);
                        if Ok(g.clone()) != want {
                            mismatch = Some(format!("{op:?}: manager returned serial {:?}, storage(+pending) holds {:?}", g.as_ref().map(serial_of), want.map(|w| w.as_ref().map(serial_of))));
                        }
                    }
                    got_records = Some(vec![(bin, g)]);
                }
                Err(_) => sh.lock().unwrap().p("read_failed"),
            }
        }
        MOp::GetAzks => {
            let got = mgr.get::<Azks>(&akd::append_only_zks::DEFAULT_AZKS_KEY).await;
            let bin = build(&Rec::Azks { epoch: 0, serial: 0 }).get_full_binary_id();
            match nf(got) {
                Ok(g) => {
                    if !concurrent {
                        let rm = sched::ungated(reference(store, &pending)).await;
                        let want = nf(sched::ungated(rm.get::<Azks>(&akd::append_only_zks::DEFAULT_AZKS_KEY)).await);
                        if Ok(g.clone()) != want {
                            mismatch = Some(format!("{op:?}: manager returned {:?}, storage(+pending) holds {:?}", g.as_ref().map(serial_of), want.map(|w| w.as_ref().map(serial_of))));
                        }
                    }
                    got_records = Some(vec![(bin, g)]);
                }
                Err(_) => sh.lock().unwrap().p("read_failed"),
            }
        }
        MOp::BatchGetNodes(idx) => {
            let keys: Vec<NodeKey> = idx.iter().map(|i| NodeKey(node_label(*i))).collect();
            match mgr.batch_get::<TreeNodeWithPreviousValue>(&keys).await {
                Ok(mut g) => {
                    g.sort();
                    if !concurrent {
                        let rm = sched::ungated(reference(store, &pending)).await;
                        let mut want = sched::ungated(rm.batch_get::<TreeNodeWithPreviousValue>(&keys)).await.unwrap_or_default();
                        want.sort();
                        if g != want {
                            mismatch = Some(format!("{op:?}: manager returned serials {:?}, storage(+pending) holds {:?}", g.iter().map(serial_of).collect::<Vec<_>>(), want.iter().map(serial_of).collect::<Vec<_>>()));
                        }
                    }
                    let mut recs = vec![];
                    for i in idx {
                        let bin = build(&Rec::Node { idx: *i, serial: 0 }).get_full_binary_id();
                        let r = g.iter().find(|r| r.get_full_binary_id() == bin).cloned();
                        recs.push((bin, r));
                    }
                    got_records = Some(recs);
                }
                Err(_) => sh.lock().unwrap().p("read_failed"),
            }
        }
        MOp::BatchGetValues(ks) => {
            let keys: Vec<ValueStateKey> = ks.iter().map(|(u, e)| ValueStateKey(USERS[*u].to_vec(), *e)).collect();
            match mgr.batch_get::<ValueState>(&keys).await {
                Ok(mut g) => {
                    g.sort();
                    g.dedup();
                    if !concurrent {
                        let rm = sched::ungated(reference(store, &pending)).await;
                        let mut want = sched::ungated(rm.batch_get::<ValueState>(&keys)).await.unwrap_or_default();
                        want.sort();
                        want.dedup();
                        if g != want {
                            mismatch = Some(format!("{op:?}: manager returned serials {:?}, storage(+pending) holds {:?}", g.iter().map(serial_of).collect::<Vec<_>>(), want.iter().map(serial_of).collect::<Vec<_>>()));
                        }
                    }
                    let mut recs = vec![];
                    for (u, e) in ks {
                        let bin = build(&Rec::Value { user: *u, epoch: *e, serial: 0 }).get_full_binary_id();
                        let r = g.iter().find(|r| r.get_full_binary_id() == bin).cloned();
                        recs.push((bin, r));
                    }
                    got_records = Some(recs);
                }
                Err(_) => sh.lock().unwrap().p("read_failed"),
            }
        }
        MOp::UserState(u, f) => {
            let user = AkdLabel(USERS[*u].to_vec());
            let flag = to_flag(*f);
            let got = mgr.get_user_state(&user, flag).await;
            if concurrent {
                // the state handed back is one record of the key (user, its epoch): the staleness oracle below applies to it
                if let Ok(st) = &got {
                    let rec = DbRecord::ValueState(st.clone());
                    got_records = Some(vec![(rec.get_full_binary_id(), Some(rec))]);
                }
            }
            differential!(nf(got), |rm: &StorageManager<SimDb>| { let rm = rm.clone(); let user = user.clone(); async move { nf(rm.get_user_state(&user, flag).await) } }, |x| x);
        }
        MOp::UserData(u) => {
            let user = AkdLabel(USERS[*u].to_vec());
            differential!(
                nf(mgr.get_user_data(&user).await).map(|o| norm_states(o.map(|k| k.states).unwrap_or_default())),
                |rm: &StorageManager<SimDb>| { let rm = rm.clone(); let user = user.clone(); async move { nf(rm.get_user_data(&user).await).map(|o| norm_states(o.map(|k| k.states).unwrap_or_default())) } },
                |x| x
            );
        }
        MOp::UserVersions(us, f) => {
            let users: Vec<AkdLabel> = us.iter().map(|u| AkdLabel(USERS[*u].to_vec())).collect();
            let flag = to_flag(*f);
            let norm = |r: Result<std::collections::HashMap<AkdLabel, (u64, AkdValue)>, StorageError>| r.map(|m| m.into_iter().collect::<BTreeMap<_, _>>()).map_err(|e| e.to_string());
            differential!(norm(mgr.get_user_state_versions(&users, flag).await), |rm: &StorageManager<SimDb>| { let rm = rm.clone(); let users = users.clone(); async move { norm(rm.get_user_state_versions(&users, flag).await) } }, |x| x);
        }
        _ => {}
    }
    let mut g = sh.lock().unwrap();
    g.checks += 1;
    // Writes that reached the database behind the manager's back: the cache may serve the older record until
    // its lifetime has passed (or for as long as a transaction is open, during which expiry is suspended);
    // serving it any longer means expiry is broken.
    if mismatch.is_some() && !concurrent && !g.ext.is_empty() {
        if let Some(recs) = &got_records {
            let snap = store.snapshot();
            let now = g.t0.map(|t| tokio::time::Instant::now().duration_since(t).as_millis() as u64).unwrap_or(0);
            let mut all_excused = true;
            let mut expired: Option<String> = None;
            for (bin, r) in recs {
                let want = pending.get(bin).or(snap.get(bin));
                if r.as_ref() == want {
                    continue;
                }
                match g.ext.get(bin) {
                    Some(t) if in_tx || now.saturating_sub(*t) <= g.lifetime_ms + 2 => {}
                    Some(t) => {
                        all_excused = false;
                        expired = Some(format!("{op:?}: returned serial {:?} although the database has held serial {:?} for {} virtual ms (item lifetime {} ms) and no transaction is open", r.as_ref().map(serial_of), want.map(serial_of), now - *t, g.lifetime_ms));
                    }
                    None => all_excused = false,
                }
            }
            if all_excused {
                mismatch = None;
                g.p("stale_within_lifetime_after_external_write");
            } else if let Some(e) = expired {
                mismatch = None;
                g.v("c16_served_expired_record", e);
            }
        }
    }
    if let Some(m) = mismatch {
        let class = if in_tx { "c15_transaction_read_differs_from_committed_read" } else if tag == "c16" { "c16_read_differs_from_storage" } else { "c15_read_outside_transaction_differs" };
        g.v(class, m);
    }
    if in_tx {
        g.p("read_inside_transaction");
    }
    // concurrent mode: per-key staleness oracle on the records returned
    if concurrent {
        if let Some(recs) = got_records {
            for (bin, r) in recs {
                let h = g.hist.get(&bin).cloned().unwrap_or_default();
                // the database's own apply order for this key
                let applied: Vec<u64> = store.applied_for_key(&bin).iter().map(serial_of).collect();
                let floor = applied.iter().rposition(|s| h.done.get(s).map(|d| *d < start_step).unwrap_or(false));
                match r {
                    None => {
                        if let Some(fi) = floor {
                            let d = format!("{op:?}: record not found although write serial {} of that key had returned before the read started", applied[fi]);
                            g.v("c16_stale_read", d);
                        }
                    }
                    Some(rec) => {
                        let s = serial_of(&rec);
                        if h.rejected.contains(&s) {
                            g.v("c16_read_returned_rejected_write", format!("{op:?}: returned serial {s}, a write the database rejected"));
                        } else {
                            match applied.iter().rposition(|x| *x == s) {
                                None => g.v("c16_read_returned_unapplied_write", format!("{op:?}: returned serial {s}, which the database has not (yet) been given")),
                                Some(i) => {
                                    if let Some(fi) = floor {
                                        if i < fi {
                                            let d = format!("{op:?}: returned serial {s} although the later write serial {} of the same key had been applied and had returned before the read started", applied[fi]);
                                            g.v("c16_stale_read", d);
                                        }
                                    }
                                }
                            }
                        }
                    }
                }
            }
        }
    }
}

async fn run_task(ti: usize, ops: Vec<MOp>, mgr: StorageManager<SimDb>, store: SimStore, sh: Arc<Mutex<Shared>>, concurrent: bool, c16: bool) {
    let tag = if c16 { "c16" } else { "c15" };
    let mut reject_next = false;
    let handle = 0u16;
    for op in ops.iter() {
        match op {
            MOp::Begin => {
                let was = sh.lock().unwrap().in_tx;
                let ok = mgr.begin_transaction();
                let mut g = sh.lock().unwrap();
                g.checks += 1;
                if was {
                    if ok {
                        g.v("c15_begin_while_open_accepted", "begin_transaction returned true while a transaction was open".into());
                    } else {
                        g.p("begin_while_open_refused");
                    }
                } else if !ok {
                    g.v("c15_begin_refused", "begin_transaction returned false although none was open".into());
                } else {
                    g.in_tx = true;
                    g.pending.clear();
                }
            }
            MOp::Rollback => {
                let r = mgr.rollback_transaction();
                let mut g = sh.lock().unwrap();
                g.checks += 1;
                if g.in_tx {
                    if r.is_err() {
                        g.v("c15_rollback_failed", format!("{r:?}"));
                    }
                    g.in_tx = false;
                    g.pending.clear();
                    g.p("rollback");
                }
            }
            MOp::Commit => {
                let (pending, in_tx) = {
                    let g = sh.lock().unwrap();
                    (g.pending.clone(), g.in_tx)
                };
                if !in_tx {
                    continue;
                }
                let _ = store.take_commits();
                let before = store.snapshot();
                if reject_next {
                    let base = sched::db_ops_so_far(handle);
                    sched::set_fault_plan(|f| f.fail_at.push((handle, base)));
                }
                let res = mgr.commit_transaction().await;
                let commits = store.take_commits();
                let mut g = sh.lock().unwrap();
                g.checks += 1;
                g.in_tx = false;
                g.pending.clear();
                if reject_next {
                    reject_next = false;
                    g.p("commit_rejected_by_database");
                    if res.is_ok() {
                        g.v("c16_rejected_commit_reported_ok", "commit_transaction returned Ok although the database rejected the batch".into());
                    }
                    if store.snapshot() != before {
                        g.herr = Some("SimDb applied a rejected commit".into());
                    }
                    // the transaction is gone either way (akd drains the log before writing)
                    continue;
                }
                match res {
                    Err(e) => g.v("c15_commit_failed", format!("{e}")),
                    Ok(n) => {
                        if n as usize != pending.len() {
                            g.v("c15_commit_count", format!("commit reported {n} records, {} were pending", pending.len()));
                        }
                        if commits.len() != 1 {
                            g.v("c15_commit_batches", format!("{} commit batches handed to the database", commits.len()));
                        } else {
                            let c = &commits[0];
                            let got: BTreeSet<DbRecord> = c.records.iter().cloned().collect();
                            let want: BTreeSet<DbRecord> = pending.values().cloned().collect();
                            if got != want || c.records.len() != pending.len() {
                                g.v("c15_commit_records_differ", format!("database received {} records (serials {:?}), pending were {:?}", c.records.len(), c.records.iter().map(serial_of).collect::<Vec<_>>(), pending.values().map(serial_of).collect::<Vec<_>>()));
                            }
                            if !c.azks_was_last {
                                g.v("c15_epoch_record_not_last", "the commit batch does not end in the epoch record".into());
                            }
                        }
                        for k in pending.keys() {
                            g.ext.remove(k);
                        }
                        g.p("commit");
                    }
                }
            }
            MOp::RejectNextWrite => {
                reject_next = true;
            }
            MOp::ExternalSet(rec) => {
                if matches!(rec, Rec::Azks { .. }) {
                    continue;
                }
                let b = build(rec);
                let key = b.get_full_binary_id();
                // not if this key is pending in the open transaction (the commit would race with it)
                if sh.lock().unwrap().pending.contains_key(&key) {
                    continue;
                }
                use akd::storage::Database;
                let _ = store.handle(7).set(b).await;
                let mut g = sh.lock().unwrap();
                let now = g.t0.map(|t| tokio::time::Instant::now().duration_since(t).as_millis() as u64).unwrap_or(0);
                g.ext.insert(key, now);
                g.p("external_write");
            }
            MOp::Set(_) | MOp::BatchSet(_) => {
                let recs: Vec<Rec> = match op {
                    MOp::Set(r) => vec![r.clone()],
                    MOp::BatchSet(v) => v.clone(),
                    _ => unreachable!(),
                };
                let built: Vec<DbRecord> = recs.iter().map(build).collect();
                let in_tx = sh.lock().unwrap().in_tx;
                let rejecting = reject_next && !in_tx;
                if rejecting {
                    let base = sched::db_ops_so_far(handle);
                    // in concurrent mode other tasks' operations may slip in between; the fault then hits
                    // whatever database operation comes next on this handle, which is still a legal fault
                    sched::set_fault_plan(|f| f.fail_at.push((handle, base)));
                    reject_next = false;
                }
                let res = if matches!(op, MOp::Set(_)) { mgr.set(built[0].clone()).await } else { mgr.batch_set(built.clone()).await };
                let done = sched::current_step();
                let mut g = sh.lock().unwrap();
                g.checks += 1;
                if in_tx {
                    for b in &built {
                        g.pending.insert(b.get_full_binary_id(), b.clone());
                    }
                    if res.is_err() {
                        g.v("c15_set_in_transaction_failed", format!("{res:?}"));
                    }
                } else {
                    if res.is_ok() {
                        for b in built.iter() {
                            g.ext.remove(&b.get_full_binary_id());
                        }
                    }
                    for b in built.iter() {
                        let k = b.get_full_binary_id();
                        let s = serial_of(b);
                        let applied = store.applied_for_key(&k).iter().any(|r| serial_of(r) == s);
                        let h = g.hist.entry(k).or_default();
                        if res.is_ok() {
                            h.done.insert(s, done);
                        } else if !applied {
                            h.rejected.insert(s);
                        }
                    }
                    if res.is_err() {
                        g.p("write_rejected_by_database");
                    }
                }
            }
            MOp::Flush => {
                mgr.flush_cache().await;
                sh.lock().unwrap().ext.clear();
                sh.lock().unwrap().p("flush");
                // after a flush the next read of the epoch record reflects storage
                if !concurrent {
                    do_read(&MOp::GetAzks, &mgr, &store, &sh, false, tag).await;
                }
            }
            MOp::Advance(ms) => {
                tokio::time::advance(Duration::from_millis(*ms)).await;
                sh.lock().unwrap().p("clock_advanced");
            }
            read => {
                do_read(read, &mgr, &store, &sh, concurrent, tag).await;
            }
        }
        let d = store.digest();
        sh.lock().unwrap().states.push(fp(&(ti, d)));
    }
}

async fn run_spec(spec: Spec) -> Shared {
    let store = SimStore::new();
    store.set_capture(true);
    store.set_log_applies(true);
    let mgr = make_manager(store.handle(0), &spec.cache);
    let sh = Arc::new(Mutex::new(Shared::default()));
    {
        let mut g = sh.lock().unwrap();
        g.t0 = Some(tokio::time::Instant::now());
        g.lifetime_ms = match &spec.cache {
            CacheSpec::Custom { lifetime_ms, .. } => (*lifetime_ms).max(2),
            _ => 30_000,
        };
    }
    if let Some(cc) = spec.conc_commit.clone() {
        return run_conc_commit(cc, mgr, store).await;
    }
    let concurrent = spec.tasks.len() > 1;
    let mut hs = vec![];
    for (ti, ops) in spec.tasks.iter().enumerate() {
        let f = run_task(ti, ops.clone(), mgr.clone(), store.clone(), sh.clone(), concurrent, spec.c16);
        if concurrent {
            hs.push(tokio::spawn(f));
        } else {
            f.await;
        }
    }
    for h in hs {
        let _ = h.await;
    }
    let mm = store.take_mismatches();
    let mut out = std::mem::take(&mut *sh.lock().unwrap());
    for m in mm {
        out.v("memory_rs_disagrees_with_documented_flag_semantics", m);
    }
    out
}

pub struct MgrArm {
    pub id: &'static str,
}

impl Arm for MgrArm {
    fn id(&self) -> &'static str {
        self.id
    }
    fn runs(&self, tier: Tier) -> u64 {
        match (self.id, tier) {
            ("C15", Tier::Quick) => 20_000,
            ("C15", Tier::Thorough) => 400_000,
            (_, Tier::Quick) => 40_000,
            (_, Tier::Thorough) => 1_000_000,
        }
    }
    fn gen(&self, rng: &mut Rng, tier: Tier, _i: u64) -> Value {
        let s = if self.id == "C15" { gen_c15(rng, tier) } else { gen_c16(rng, tier) };
        serde_json::to_value(s).unwrap()
    }
    fn run(&self, spec_v: &Value, chooser: &ChooserSpec, log: bool) -> RunReport {
        let mut rep = RunReport::default();
        let spec: Spec = match serde_json::from_value(spec_v.clone()) {
            Ok(s) => s,
            Err(e) => {
                rep.harness_error = Some(format!("bad spec: {e}"));
                return rep;
            }
        };
        let simcfg = SimCfg { policy: spec.policy, h2_mask: spec.h2_mask, ..SimCfg::default() };
        let sample = json!({"cache": format!("{:?}", spec.cache), "tasks": spec.tasks.len(), "ops_per_task": spec.tasks.iter().map(|t| t.len()).collect::<Vec<_>>(), "first_ops": spec.tasks[0].iter().take(14).map(|o| format!("{o:?}")).collect::<Vec<_>>()});
        let n_ops: usize = spec.tasks.iter().map(|t| t.len()).sum();
        let id = self.id;
        let res = sched::run_sim(simcfg, chooser, log, run_spec(spec));
        if let Some(o) = rep.absorb(res) {
            rep.checks = o.checks;
            let in_tx_reads = o.probes.get("read_inside_transaction").copied().unwrap_or(0);
            let had_commit = o.probes.contains_key("commit");
            let conc_case = o.probes.contains_key("concurrent_commit_case");
            let had_evict = o.probes.contains_key("clock_advanced");
            for (k, c) in o.probes {
                rep.probe_n(&k, c);
            }
            rep.states = o.states;
            rep.harness_error = rep.harness_error.take().or(o.herr);
            let nontrivial = if id == "C15" { (in_tx_reads >= 3 && had_commit) || conc_case } else { n_ops >= 10 && had_evict };
            if nontrivial {
                rep.nontrivial.push(fp(&spec_v.to_string()));
            }
            for v in o.violations {
                let mine = if id == "C15" { v.class.starts_with("c15_") || v.class.starts_with("memory_rs") } else { v.class.starts_with("c16_") };
                if mine {
                    rep.violate(v);
                }
            }
        }
        rep.sample = Some(sample);
        rep
    }
    fn shrink(&self, spec: &Value) -> Vec<Value> {
        let mut out = vec![];
        let nt = spec["tasks"].as_array().map(|a| a.len()).unwrap_or(0);
        for t in 0..nt {
            let n = spec["tasks"][t].as_array().map(|a| a.len()).unwrap_or(0);
            let mut chunk = n.div_ceil(2).max(1);
            loop {
                let mut i = 0;
                while i < n {
                    let end = (i + chunk).min(n);
                    let mut c = spec.clone();
                    c["tasks"][t].as_array_mut().unwrap().drain(i..end);
                    out.push(c);
                    i = end;
                }
                if chunk == 1 || out.len() > 600 {
                    break;
                }
                chunk = chunk.div_ceil(2);
            }
        }
        if spec.get("h2_mask") != Some(&json!(0)) {
            let mut c = spec.clone();
            c["h2_mask"] = json!(0);
            out.push(c);
        }
        out
    }
    fn rule(&self) -> String {
        if self.id == "C15" {
            "one case = one seeded sequence of 20..140 storage-manager operations over a small universe (3 users incl. the empty label x epochs 1..4 with version = 2*epoch+user+1, 6 tree-node keys, the epoch record): set, batch_set, single and batched gets, get_user_state with every flag, get_user_data, get_user_state_versions, begin, commit (epoch record added first, as publish does), rollback, begin-while-open; cached and uncached managers. Oracle (the statement verbatim, differential): at every read the storage is snapshotted, the pending records are applied to the snapshot and the SAME read is issued through a fresh cache-less manager on it — answers must be equal (absent user = empty answer); rollback discards pending writes; commit hands the database exactly one batch equal to the pending record set with the epoch record last; begin while open is refused; memory.rs answers are cross-checked against the documented meaning of each retrieval flag. One case in ten is concurrent instead: one task runs 1..3 transactions (value-state keys written once each, epoch record, commit) while a second task writes node keys (once each, after seeded delays of 0..11 virtual ms) through the same manager, interleaved at database operations and manager entry points; no rollback, no fault; every acknowledged write must have been handed to the database by the end, whether it joined the open transaction or went straight through. non-trivial = >= 3 reads inside a transaction and >= 1 commit, or a concurrent case; distinct = distinct op sequences".into()
        } else {
            "one case = one seeded run over one cached StorageManager (lifetime 2 ms..30 s, memory limit 300 B..none, clean cadence 2 ms..15 s): either a single task mixing writes, writes the database rejects, transactions (incl. rejected commits), reads, flushes and clock advances around the lifetime (differential oracle: every get/batch_get equals the same read on storage + pending through a fresh cache-less manager; after flush the next epoch-record read reflects storage), or 2-3 tasks on clones interleaved at StorageManager entry points and database operations (oracle: every written record carries a unique serial; a read that starts after a write of that key has returned must not return an older record, and never the value of a rejected write). non-trivial = >= 10 operations with at least one clock advance; distinct = distinct op sequences".into()
        }
    }
    fn assumptions(&self) -> Vec<String> {
        vec![
            "well-formed data as the quantifier demands: per user versions increase with epochs; rewriting (user, epoch) keeps its version".into(),
            "transactions that are committed contain the epoch record (as publish guarantees); committing without one is not judged".into(),
            "concurrent tasks are interleaved, never parallel: the multi-thread-runtime part of C16's quantifier is out of reach (DESIGN.md section 10)".into(),
        ]
    }
}
