//! C14: results do not depend on parallelism, caching, preloading, batching or restarts.
//! Configuration arm: one workload is executed under a matrix of configurations (and by a
//! second build of the simulator without the preload / parallel-VRF features); the sequences
//! of observable results must be identical.

use crate::byz::TreeView;
use crate::harness::{Arm, RunReport, Tier, Violation};
use crate::histarm::{gen_hist_spec, make_manager, par_opt, to_hp, CacheSpec, Checks, GenProfile, HistSpec, Op, Reader};
use crate::model::{to_akd_batch, Cfg, ModelCfg, SimVrf, H32};
use crate::props::c05::gen_leaf_labels;
use crate::rng::{fp, ChooserSpec, Rng};
use crate::sched::{self, Policy, SimCfg};
use crate::simdb::SimStore;
use crate::wire;
use akd::append_only_zks::{AzksParallelismConfig, InsertMode};
use akd::directory::{Directory, ReadOnlyDirectory};
use akd::{AkdLabel, Azks, AzksElement, AzksValue, HistoryVerificationParams, NodeLabel};
use serde::{Deserialize, Serialize};
use serde_json::{json, Value};
use std::collections::BTreeMap;
use std::time::Duration;

#[derive(Clone, Debug, Serialize, Deserialize)]
pub struct Variant {
    pub name: String,
    pub par_insert: u32,
    pub par_preload: u32,
    pub cache: CacheSpec,
    /// 0 = never, 1 = between every two calls, n = after every n-th call
    pub restart_every: u32,
    pub read_only: bool,
    pub policy: Policy,
    pub h2_mask: u16,
    /// run by the second build (akd without greedy_lookup_preload / preload_history / parallel_vrf)
    pub featureless_build: bool,
}

#[derive(Clone, Debug, Serialize, Deserialize)]
pub struct Spec {
    pub hist: HistSpec,
    pub variants: Vec<Variant>,
    /// tree-level part: a leaf set, a permutation seed, and a split into sub-batches
    pub leaves: Vec<(H32, H32)>,
    pub tree_seed: u64,
    /// set in replay files: the scheduling decisions of every configuration run are drawn from this seed
    /// (each configuration has its own run, so a single recorded trace cannot serve them all)
    #[serde(default)]
    pub chooser_seed: Option<u64>,
}

fn all_variants(rng: &mut Rng) -> Vec<Variant> {
    let base = Variant { name: "base".into(), par_insert: 0, par_preload: 0, cache: CacheSpec::None, restart_every: 0, read_only: false, policy: Policy::Fifo(0), h2_mask: 0, featureless_build: false };
    let mut v = vec![];
    for (pi, pp) in [(1u32, 1u32), (2, 2), (3, 1), (4, 0), (32, 32), (u32::MAX, u32::MAX), (0, 32)] {
        let mut x = base.clone();
        x.par_insert = pi;
        x.par_preload = pp;
        x.cache = if pp > 0 { CacheSpec::Default } else { CacheSpec::None };
        x.policy = crate::histarm::gen_policy(rng);
        x.name = format!("parallel_{pi}_{pp}");
        v.push(x);
    }
    for (i, c) in [CacheSpec::Default, CacheSpec::Custom { lifetime_ms: 2, limit_bytes: None, clean_ms: 2 }, CacheSpec::Custom { lifetime_ms: 30_000, limit_bytes: Some(300), clean_ms: 2 }, CacheSpec::Custom { lifetime_ms: 5, limit_bytes: Some(2000), clean_ms: 3 }].into_iter().enumerate() {
        let mut x = base.clone();
        x.cache = c;
        x.par_preload = *rng.pick(&[0, 2]);
        x.h2_mask = if rng.chance(1, 2) { 0x7ff } else { 0 };
        x.name = format!("cache_{i}");
        v.push(x);
    }
    for r in [1u32, 2, 3] {
        let mut x = base.clone();
        x.restart_every = r;
        x.cache = if r == 2 { CacheSpec::Default } else { CacheSpec::None };
        x.name = format!("restart_every_{r}");
        v.push(x);
    }
    {
        let mut x = base.clone();
        x.read_only = true;
        x.cache = CacheSpec::Default;
        x.name = "read_only_wrapper".into();
        v.push(x);
    }
    for i in 0..3 {
        let mut x = base.clone();
        x.featureless_build = true;
        x.par_insert = *rng.pick(&[0, 2, 32]);
        x.par_preload = *rng.pick(&[0, 2]);
        x.cache = if i == 0 { CacheSpec::None } else { CacheSpec::Default };
        x.name = format!("featureless_build_{i}");
        v.push(x);
    }
    {
        let mut x = base.clone();
        x.par_insert = 4;
        x.par_preload = 4;
        x.cache = CacheSpec::Custom { lifetime_ms: 3, limit_bytes: Some(700), clean_ms: 2 };
        x.restart_every = 3;
        x.read_only = true;
        x.policy = Policy::Uniform;
        x.h2_mask = 0x7ff;
        x.name = "everything_at_once".into();
        v.push(x);
    }
    v
}

fn gen(rng: &mut Rng, tier: Tier) -> Spec {
    let thorough = tier == Tier::Thorough;
    let prof = GenProfile { max_labels: 8, max_epochs: if thorough { 14 } else { 8 }, max_batch: 6, tombstones: false, restarts: false, clock: true };
    let mut hist = gen_hist_spec(rng, &prof, Checks { every: 3, ..Default::default() });
    hist.cache = CacheSpec::None;
    hist.par_insert = 0;
    hist.par_preload = 0;
    hist.policy = Policy::Fifo(0);
    hist.h2_mask = 0;
    let mut variants = all_variants(rng);
    if !thorough {
        rng.shuffle(&mut variants);
        // always keep one featureless-build variant in the sample
        let fl = variants.iter().position(|v| v.featureless_build).unwrap();
        variants.swap(0, fl);
        variants.truncate(7);
    }
    let n = rng.range(2, 24) as usize;
    let leaves = gen_leaf_labels(rng, n).into_iter().map(|l| {
        let b = rng.bytes(32);
        let mut v = [0u8; 32];
        v.copy_from_slice(&b);
        (l, v)
    }).collect();
    Spec { hist, variants, leaves, tree_seed: rng.next_u64(), chooser_seed: None }
}

fn apply_variant(h: &HistSpec, v: &Variant) -> HistSpec {
    let mut s = h.clone();
    s.par_insert = v.par_insert;
    s.par_preload = v.par_preload;
    s.cache = v.cache.clone();
    s.policy = v.policy;
    s.h2_mask = v.h2_mask;
    s.checks.read_only = v.read_only;
    if v.restart_every > 0 {
        let mut ops = vec![];
        for (i, op) in h.ops.iter().enumerate() {
            ops.push(op.clone());
            if (i as u32 + 1) % v.restart_every == 0 {
                ops.push(Op::Restart);
            }
        }
        s.ops = ops;
    }
    s
}

/// Execute the history and write down everything a user could observe, in order.
pub async fn transcript_t<TC: ModelCfg>(spec: HistSpec) -> Vec<String> {
    let mut t: Vec<String> = vec![];
    let store = SimStore::new();
    let vrf = SimVrf::default();
    let par = AzksParallelismConfig { insertion: par_opt(spec.par_insert), preload: par_opt(spec.par_preload) };
    let mut mgr = make_manager(store.handle(0), &spec.cache);
    let mut dir = match Directory::<TC, _, _>::new(mgr.clone(), vrf.clone(), par).await {
        Ok(d) => d,
        Err(e) => return vec![format!("Directory::new failed: {e}")],
    };
    let pk = dir.get_public_key().await.unwrap().as_bytes().to_vec();
    let mut hashes: Vec<[u8; 32]> = vec![dir.get_epoch_hash().await.map(|e| e.1).unwrap_or([0; 32])];
    let mut crng = Rng::new(spec.check_seed);
    let n_publishes = spec.ops.iter().filter(|o| matches!(o, Op::Publish(_))).count() as u32;
    let mut publishes = 0u32;
    for op in spec.ops.iter() {
        match op {
            Op::Publish(b) => {
                publishes += 1;
                match dir.publish(to_akd_batch(b)).await {
                    Ok(eh) => {
                        t.push(format!("publish#{publishes} -> ({}, {})", eh.0, hex::encode(eh.1)));
                        if eh.0 as usize == hashes.len() {
                            hashes.push(eh.1);
                        }
                    }
                    Err(_) => t.push(format!("publish#{publishes} -> Err")),
                }
                // the sampling of checkpoints must not depend on the variant: draw unconditionally
                let sample = crng.below(spec.checks.every.max(1) as u64) == 0;
                let pair = (crng.next_u64(), crng.next_u64());
                if !(sample || publishes == n_publishes) {
                    continue;
                }
                let reader = if spec.checks.read_only {
                    match ReadOnlyDirectory::<TC, _, _>::new(mgr.clone(), vrf.clone(), par).await {
                        Ok(r) => Reader::Ro(r),
                        Err(_) => Reader::Rw(dir.clone()),
                    }
                } else {
                    Reader::Rw(dir.clone())
                };
                match reader.get_epoch_hash().await {
                    Ok(eh) => t.push(format!("  epoch_hash ({}, {})", eh.0, hex::encode(eh.1))),
                    Err(_) => t.push("  epoch_hash Err".into()),
                }
                for l in &spec.universe {
                    match reader.lookup(AkdLabel(l.clone())).await {
                        Err(_) => t.push(format!("  lookup {} Err", hex::encode(&l[..l.len().min(8)]))),
                        Ok((p, eh)) => {
                            let vr = wire::send_lookup(&p).ok().and_then(|p| akd::client::lookup_verify::<TC>(&pk, eh.1, eh.0, AkdLabel(l.clone()), p).ok());
                            t.push(format!("  lookup {} @{} -> {:?}", hex::encode(&l[..l.len().min(8)]), eh.0, vr.map(|r| (r.epoch, r.version, fp(&r.value.0)))));
                        }
                    }
                    for hp in [None, Some(2usize)] {
                        match reader.key_history(&AkdLabel(l.clone()), to_hp(hp)).await {
                            Err(_) => t.push(format!("  history {} {hp:?} Err", hex::encode(&l[..l.len().min(8)]))),
                            Ok((p, eh)) => {
                                let vr = wire::send_history(&p).ok().and_then(|p| akd::client::key_history_verify::<TC>(&pk, eh.1, eh.0, AkdLabel(l.clone()), p, HistoryVerificationParams::Default { history_params: to_hp(hp) }).ok());
                                t.push(format!("  history {} {hp:?} @{} -> {:?}", hex::encode(&l[..l.len().min(8)]), eh.0, vr.map(|l| l.iter().map(|r| (r.epoch, r.version, fp(&r.value.0))).collect::<Vec<_>>())));
                            }
                        }
                    }
                }
                let cur = hashes.len() as u64 - 1;
                if cur >= 1 {
                    let s = pair.0 % cur;
                    let e = s + 1 + pair.1 % (cur - s);
                    for (s, e) in [(0, cur), (cur - 1, cur), (s, e)] {
                        match reader.audit(s, e).await {
                            Err(_) => t.push(format!("  audit({s},{e}) Err")),
                            Ok(p) => {
                                let hs: Vec<[u8; 32]> = (s..=e).map(|i| hashes[i as usize]).collect();
                                let ok = match wire::send_audit(&p) {
                                    Ok(p) => akd::auditor::audit_verify::<TC>(hs, p).await.is_ok(),
                                    Err(_) => false,
                                };
                                t.push(format!("  audit({s},{e}) -> verifies={ok}"));
                            }
                        }
                    }
                }
            }
            Op::AdvanceClock(ms) => tokio::time::advance(Duration::from_millis(*ms)).await,
            Op::Restart => {
                drop(dir);
                mgr = make_manager(store.handle(0), &spec.cache);
                dir = match Directory::<TC, _, _>::new(mgr.clone(), vrf.clone(), par).await {
                    Ok(d) => d,
                    Err(e) => {
                        t.push(format!("restart failed: {e}"));
                        return t;
                    }
                };
            }
            Op::Tombstone { .. } => {}
        }
    }
    t
}

pub fn transcript(spec: &HistSpec, chooser: &ChooserSpec) -> (Vec<String>, crate::sched::RunStats, Option<String>) {
    let simcfg = SimCfg { policy: spec.policy, h2_mask: spec.h2_mask, ..SimCfg::default() };
    let s = spec.clone();
    let r = match spec.cfg {
        Cfg::WhatsApp => sched::run_sim(simcfg, chooser, false, transcript_t::<akd::WhatsAppV1Configuration>(s)),
        Cfg::Experimental => sched::run_sim(simcfg, chooser, false, transcript_t::<akd::ExperimentalConfiguration<akd::ExampleLabel>>(s)),
    };
    let err = match &r.end {
        crate::sched::EndState::Finished => None,
        other => Some(format!("{other:?}")),
    };
    (r.value.unwrap_or_default(), r.stats, err)
}

/// `akd-sim transcript <file>`: used by the other build of the simulator
pub fn transcript_cli(path: &str) -> i32 {
    crate::sched::install_quiet_panic_hook();
    let txt = match std::fs::read_to_string(path) {
        Ok(t) => t,
        Err(e) => {
            eprintln!("cannot read {path}: {e}");
            return 2;
        }
    };
    let v: Value = serde_json::from_str(&txt).unwrap();
    let spec: HistSpec = serde_json::from_value(v["spec"].clone()).unwrap();
    let chooser: ChooserSpec = serde_json::from_value(v["chooser"].clone()).unwrap();
    let (t, _, err) = transcript(&spec, &chooser);
    if let Some(e) = err {
        eprintln!("simulation ended with {e}");
        return 2;
    }
    println!("{}", serde_json::to_string(&json!({"features": cfg!(feature = "akd_feats"), "transcript": t})).unwrap());
    0
}

fn featureless_binary() -> String {
    std::env::var("AKD_SIM_NOFEAT").unwrap_or_else(|_| format!("{}/sim/target-nofeat/release/akd-sim", crate::harness::verif_dir()))
}

fn first_difference(a: &[String], b: &[String]) -> String {
    for i in 0..a.len().max(b.len()) {
        let (x, y) = (a.get(i), b.get(i));
        if x != y {
            return format!("line {i}: base has {:?}, variant has {:?}", x.map(|s| s.trim()), y.map(|s| s.trim()));
        }
    }
    "no difference".into()
}

async fn tree_level<TC: ModelCfg>(leaves: Vec<(H32, H32)>, seed: u64) -> Vec<Violation> {
    let mut out = vec![];
    let mut rng = Rng::new(seed);
    let elems: Vec<AzksElement> = leaves.iter().map(|(l, v)| AzksElement { label: NodeLabel::new(*l, 256), value: AzksValue(*v) }).collect();
    // reference: everything at once, sequentially
    let mut results: Vec<(String, [u8; 32], BTreeMap<(u32, [u8; 32]), akd::tree_node::TreeNode>, u64)> = vec![];
    for variant in 0..5 {
        let store = SimStore::new();
        let cache = if variant % 2 == 0 { CacheSpec::None } else { CacheSpec::Default };
        let mgr = make_manager(store.handle(0), &cache);
        let mut azks = match Azks::new::<TC, _>(&mgr).await {
            Ok(a) => a,
            Err(_) => return out,
        };
        let mut es = elems.clone();
        let name;
        let par = AzksParallelismConfig { insertion: par_opt(*rng.pick(&[0, 2, 32])), preload: par_opt(*rng.pick(&[0, 2])) };
        let mut failed = false;
        match variant {
            0 => {
                name = "all at once, given order".to_string();
                failed |= azks.batch_insert_nodes::<TC, _>(&mgr, es, InsertMode::Directory, AzksParallelismConfig::disabled()).await.is_err();
            }
            1 | 2 => {
                rng.shuffle(&mut es);
                name = format!("all at once, seeded permutation, parallelism {par:?}");
                failed |= azks.batch_insert_nodes::<TC, _>(&mgr, es, InsertMode::Directory, par).await.is_err();
            }
            _ => {
                rng.shuffle(&mut es);
                let k = rng.range(2, 4.min(es.len().max(2) as u64)) as usize;
                name = format!("{k} sub-batches within one epoch, parallelism {par:?}");
                let mut parts: Vec<Vec<AzksElement>> = vec![vec![]; k];
                for (i, e) in es.into_iter().enumerate() {
                    parts[i % k].push(e);
                }
                for p in parts {
                    if p.is_empty() {
                        continue;
                    }
                    azks.latest_epoch = 0; // the way the auditor replays: every sub-batch lands in the same epoch
                    failed |= azks.batch_insert_nodes::<TC, _>(&mgr, p, InsertMode::Directory, par).await.is_err();
                }
            }
        }
        if failed {
            out.push(Violation::new("c14_tree_insert_failed", name));
            continue;
        }
        let root = azks.get_root_hash::<TC, _>(&mgr).await.unwrap_or([0; 32]);
        let view = TreeView::from_snapshot(&store.snapshot());
        results.push((name, root, view.nodes, azks.num_nodes));
    }
    for r in results.iter().skip(1) {
        if r.1 != results[0].1 {
            out.push(Violation::new("c14_tree_root_depends_on_insertion_order", format!("{} leaves: '{}' gives root {} but '{}' gives {}", leaves.len(), results[0].0, hex::encode(results[0].1), r.0, hex::encode(r.1))));
        } else if r.2 != results[0].2 {
            let diff = r.2.iter().find(|(k, n)| results[0].2.get(*k) != Some(*n)).map(|(k, n)| format!("node ({},{}) = {:?} vs {:?}", k.0, hex::encode(&k.1[..4]), n, results[0].2.get(k)));
            out.push(Violation::new("c14_tree_nodes_depend_on_insertion_order", format!("{} leaves: same root but different latest_node records between '{}' and '{}': {:?}", leaves.len(), results[0].0, r.0, diff)));
        } else if r.3 != results[0].3 {
            out.push(Violation::new("c14_node_count_depends_on_insertion_order", format!("num_nodes {} vs {}", results[0].3, r.3)));
        }
    }
    out
}

pub struct C14;

impl Arm for C14 {
    fn id(&self) -> &'static str {
        "C14"
    }
    fn runs(&self, tier: Tier) -> u64 {
        match tier {
            Tier::Quick => 240,
            Tier::Thorough => 3000,
        }
    }
    fn gen(&self, rng: &mut Rng, tier: Tier, _i: u64) -> Value {
        serde_json::to_value(gen(rng, tier)).unwrap()
    }
    fn run(&self, spec_v: &Value, chooser: &ChooserSpec, _log: bool) -> RunReport {
        let mut rep = RunReport::default();
        let spec: Spec = match serde_json::from_value(spec_v.clone()) {
            Ok(s) => s,
            Err(e) => {
                rep.harness_error = Some(format!("bad spec: {e}"));
                return rep;
            }
        };
        let seeded;
        let chooser = match (spec.chooser_seed, chooser) {
            (Some(s), _) => {
                seeded = ChooserSpec::Seeded(s);
                &seeded
            }
            (None, c) => c,
        };
        let chooser_seed = match chooser {
            ChooserSpec::Seeded(s) => Some(*s),
            _ => None,
        };
        let (base, st, err) = transcript(&spec.hist, chooser);
        rep.stats = st;
        if let Some(e) = err {
            rep.harness_error = Some(format!("base configuration: {e}"));
            return rep;
        }
        let mut inter = vec![rep.stats.interleaving];
        let mut total_steps = rep.stats.steps;
        for v in &spec.variants {
            let vs = apply_variant(&spec.hist, v);
            rep.checks += 1;
            let tv = if v.featureless_build {
                let bin = featureless_binary();
                if !std::path::Path::new(&bin).exists() {
                    rep.harness_error = Some(format!("second build of the simulator not found at {bin} (run ./check C14 or MANIFEST.setup_cmd)"));
                    return rep;
                }
                let tmp = std::env::temp_dir().join(format!("akd-sim-c14-{}-{:016x}.json", std::process::id(), fp(&(spec_v.to_string(), &v.name, std::thread::current().id()))));
                std::fs::write(&tmp, serde_json::to_string(&json!({"spec": vs, "chooser": chooser})).unwrap()).unwrap();
                let o = std::process::Command::new(&bin).arg("transcript").arg(&tmp).output();
                let _ = std::fs::remove_file(&tmp);
                match o {
                    Ok(o) if o.status.success() => {
                        let j: Value = serde_json::from_slice(&o.stdout).unwrap_or(json!({}));
                        if j["features"] != json!(false) {
                            rep.harness_error = Some("the second build was compiled WITH the akd features".into());
                            return rep;
                        }
                        rep.probe("variant_run_by_featureless_build");
                        j["transcript"].as_array().map(|a| a.iter().map(|s| s.as_str().unwrap_or("").to_string()).collect::<Vec<_>>()).unwrap_or_default()
                    }
                    Ok(o) => {
                        let msg = String::from_utf8_lossy(&o.stderr).to_string();
                        if msg.contains("/repo/akd") {
                            rep.violate(Violation::new("akd_panic", format!("featureless build: {msg}")));
                            continue;
                        }
                        rep.harness_error = Some(format!("second build failed: {msg}"));
                        return rep;
                    }
                    Err(e) => {
                        rep.harness_error = Some(format!("cannot run second build: {e}"));
                        return rep;
                    }
                }
            } else {
                let (t, st, err) = transcript(&vs, chooser);
                total_steps += st.steps;
                inter.push(st.interleaving);
                rep.stats.choice_steps += st.choice_steps;
                rep.stats.virtual_ms += st.virtual_ms;
                rep.stats.max_pending = rep.stats.max_pending.max(st.max_pending);
                for (k, c) in st.grants {
                    *rep.stats.grants.entry(k).or_insert(0) += c;
                }
                if let Some(e) = err {
                    if e.contains("/repo/akd") {
                        rep.violate(Violation::new("akd_panic", format!("variant {}: {e}", v.name)));
                        continue;
                    }
                    rep.harness_error = Some(format!("variant {}: {e}", v.name));
                    return rep;
                }
                t
            };
            rep.probe(&format!("variant_{}", v.name.split(|c: char| c.is_ascii_digit()).next().unwrap_or("").trim_end_matches('_')));
            if tv != base {
                let mut viol = Violation::new("c14_results_depend_on_configuration", format!("variant '{}' ({:?}): {}", v.name, v, first_difference(&base, &tv)));
                viol.facts.insert("variant".into(), json!(v.name));
                rep.violate(viol);
                let mut s2 = spec.clone();
                s2.variants = vec![v.clone()];
                s2.chooser_seed = chooser_seed;
                rep.spec_override = Some(serde_json::to_value(&s2).unwrap());
                break;
            }
        }
        rep.stats.steps = total_steps;
        rep.stats.interleaving = fp(&inter);
        // tree level
        let tl = match spec.hist.cfg {
            Cfg::WhatsApp => sched::run_sim(SimCfg::default(), chooser, false, tree_level::<akd::WhatsAppV1Configuration>(spec.leaves.clone(), spec.tree_seed)),
            Cfg::Experimental => sched::run_sim(SimCfg::default(), chooser, false, tree_level::<akd::ExperimentalConfiguration<akd::ExampleLabel>>(spec.leaves.clone(), spec.tree_seed)),
        };
        rep.checks += 4;
        if let Some(vs) = tl.value {
            for v in vs {
                rep.violate(v);
            }
        }
        if base.len() >= 10 {
            rep.nontrivial.push(fp(&base));
        }
        rep.states.push(fp(&base));
        rep.sample = Some(json!({"history": crate::histarm::summarize(&spec.hist), "variants": spec.variants.iter().map(|v| v.name.clone()).collect::<Vec<_>>(), "transcript_lines": base.len(), "transcript_head": base.iter().take(6).collect::<Vec<_>>(), "tree_leaves": spec.leaves.len()}));
        rep
    }
    fn shrink(&self, spec: &Value) -> Vec<Value> {
        let mut out = vec![];
        for cand in crate::harness::drop_candidates(&spec["hist"], &["ops"]) {
            let mut s2 = spec.clone();
            s2["hist"] = cand;
            out.push(s2);
        }
        out.extend(crate::harness::drop_candidates(spec, &["leaves"]));
        out
    }
    fn rule(&self) -> String {
        "one case = one seeded publish history (<= 8 labels, <= 14 epochs, clock jumps) executed first under the base configuration (sequential insertion and preload, no cache, no restarts, default features) and then under each configuration of the matrix (thorough: all 19; quick: 7 seeded incl. one of the second build): insertion/preload parallelism {Static 1,2,3,4,32, AvailableOr(32)} with seeded scheduling policies, cache {default, 2 ms lifetime, 300-byte limit with 2 ms clean cadence, 5 ms + 2000 bytes}, directory dropped and re-created between every call / every 2nd / every 3rd, requests through ReadOnlyDirectory, all of it at once, and three configurations run by a SECOND BUILD of the simulator against akd compiled without greedy_lookup_preload / preload_history / parallel_vrf. The transcript (every publish result, and at seeded checkpoints the epoch hash, every label's verified lookup result, complete and MostRecent(2) history results, and the outcome of three audits) must be identical line by line. Tree level: the same leaf set inserted at once in given order, in seeded permutations with parallelism, and split into 2-4 sub-batches within one epoch must give the same root hash, identical latest_node records and the same node count. non-trivial = transcript of >= 10 lines; distinct = distinct base transcripts".into()
    }
    fn assumptions(&self) -> Vec<String> {
        vec![
            "AvailableOr(n) reads the machine's parallelism (16 here); only the equality of results is judged, the value is never logged".into(),
            "the second build shares all harness code; it differs in the cargo features of the akd dependency only".into(),
        ]
    }
    fn extra_evidence(&self) -> Value {
        json!({"second_build": featureless_binary()})
    }
}
