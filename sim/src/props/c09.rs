//! C09: audit soundness against a Byzantine server that assembles append-only proofs from
//! real nodes, with the end hash chosen freely (the hash the auditor's own reconstruction
//! yields, so that nothing but the auditor's structural checks stands in the way).

use crate::byz::{is_prefix, TreeView};
use crate::harness::{Arm, RunReport, Tier, Violation};
use crate::histarm::{gen_policy, make_manager, par_opt, CacheSpec};
use crate::model::{Cfg, Leaf, ModelCfg, H32};
use crate::props::c05::gen_leaf_labels;
use crate::rng::{fp, ChooserSpec, Rng};
use crate::sched::{self, Policy, SimCfg};
use crate::simdb::SimStore;
use akd::append_only_zks::{AzksParallelismConfig, InsertMode};
use akd::storage::memory::AsyncInMemoryDatabase;
use akd::storage::{StorageManager, StorageUtil};
use akd::tree_node::{TreeNode, TreeNodeType};
use akd::{AppendOnlyProof, Azks, AzksElement, AzksValue, NodeLabel, SingleAppendOnlyProof};
use serde::{Deserialize, Serialize};
use serde_json::{json, Value};
use std::collections::{BTreeMap, BTreeSet};

#[derive(Clone, Debug, Serialize, Deserialize)]
pub struct Spec {
    pub cfg: Cfg,
    pub par_insert: u32,
    pub policy: Policy,
    /// S1 inserted over epochs 1..e
    pub batches: Vec<Vec<(H32, H32)>>,
    /// honest additions at epoch e+1
    pub additions: Vec<(H32, H32)>,
    pub strat_seed: u64,
    pub strategies: u32,
}

fn rand32(rng: &mut Rng) -> H32 {
    let b = rng.bytes(32);
    let mut a = [0u8; 32];
    a.copy_from_slice(&b);
    a
}

fn nl(l: &H32) -> NodeLabel {
    NodeLabel::new(*l, 256)
}

fn gen(rng: &mut Rng, tier: Tier) -> Spec {
    let max = if tier == Tier::Thorough { 40 } else { 20 };
    let n = rng.range(2, max) as usize;
    let mut labels = gen_leaf_labels(rng, n + 4);
    rng.shuffle(&mut labels);
    let adds: Vec<(H32, H32)> = labels.split_off(n.min(labels.len().saturating_sub(1)).max(1)).into_iter().map(|l| (l, rand32(rng))).collect();
    let nb = rng.range(1, 3) as usize;
    let mut batches: Vec<Vec<(H32, H32)>> = vec![vec![]; nb];
    for (i, l) in labels.iter().enumerate() {
        let b = if i < nb { i } else { rng.below(nb as u64) as usize };
        batches[b].push((*l, rand32(rng)));
    }
    batches.retain(|b| !b.is_empty());
    Spec {
        cfg: if rng.chance(1, 2) { Cfg::WhatsApp } else { Cfg::Experimental },
        par_insert: *rng.pick(&[0, 0, 2]),
        policy: gen_policy(rng),
        batches,
        additions: adds,
        strat_seed: rng.next_u64(),
        strategies: if tier == Tier::Thorough { 60 } else { 30 },
    }
}

#[derive(Default)]
struct Out {
    violations: Vec<Violation>,
    checks: u64,
    probes: BTreeMap<String, u64>,
    nontrivial: Vec<u64>,
    herr: Option<String>,
}
impl Out {
    fn v(&mut self, v: Violation) {
        if self.violations.len() < 8 {
            self.violations.push(v);
        }
    }
    fn p(&mut self, n: &str) {
        *self.probes.entry(n.to_string()).or_insert(0) += 1;
    }
}

fn elem_of<TC: akd::Configuration>(n: &TreeNode) -> AzksElement {
    AzksElement { label: n.label, value: TreeView::value_in_parent::<TC>(n) }
}

/// a random cut (frontier) of the tree: a set of real nodes such that every leaf is below exactly one
fn random_cut<'a>(view: &'a TreeView, rng: &mut Rng, expansions: u32) -> Vec<&'a TreeNode> {
    let root = view.root();
    let mut cut: Vec<&TreeNode> = [root.left_child, root.right_child].iter().filter_map(|c| c.and_then(|l| view.get(&l))).collect();
    for _ in 0..expansions {
        let interior: Vec<usize> = cut.iter().enumerate().filter(|(_, n)| n.node_type != TreeNodeType::Leaf).map(|(i, _)| i).collect();
        if interior.is_empty() {
            break;
        }
        let i = interior[rng.below(interior.len() as u64) as usize];
        let n = cut.remove(i);
        for c in [n.left_child, n.right_child].iter().flatten() {
            if let Some(ch) = view.get(c) {
                cut.push(ch);
            }
        }
    }
    cut
}

fn extend_label(rng: &mut Rng, prefix: &NodeLabel, next_bit: Option<u8>) -> H32 {
    let mut v = rand32(rng);
    for i in 0..prefix.label_len {
        let b = crate::byz::bit_at(&prefix.label_val, i);
        let byte = (i / 8) as usize;
        let mask = 1u8 << (7 - (i % 8));
        if b == 1 {
            v[byte] |= mask;
        } else {
            v[byte] &= !mask;
        }
    }
    if let Some(nb) = next_bit {
        if prefix.label_len < 256 {
            let i = prefix.label_len;
            let byte = (i / 8) as usize;
            let mask = 1u8 << (7 - (i % 8));
            if nb == 1 {
                v[byte] |= mask;
            } else {
                v[byte] &= !mask;
            }
        }
    }
    v
}

/// What the auditor's reconstruction of the later tree commits to: replicate its procedure with the
/// real insertion code on a private store and walk the resulting tree from the root.
async fn reconstruct<TC: ModelCfg>(unchanged: &[AzksElement], inserted: &[AzksElement], end_epoch: u64) -> Result<([u8; 32], Vec<(NodeLabel, AzksValue)>), String> {
    let db = AsyncInMemoryDatabase::new();
    let mgr = StorageManager::new_no_cache(db.clone());
    let mut azks = Azks::new::<TC, _>(&mgr).await.map_err(|e| e.to_string())?;
    azks.latest_epoch = end_epoch - 1;
    let mut all = unchanged.to_vec();
    all.extend(inserted.iter().map(|x| AzksElement { label: x.label, value: AzksValue(TC::hash_leaf_with_commitment(x.value, end_epoch).0) }));
    azks.batch_insert_nodes::<TC, _>(&mgr, all, InsertMode::Auditor, AzksParallelismConfig::disabled()).await.map_err(|e| e.to_string())?;
    let root = azks.get_root_hash::<TC, _>(&mgr).await.map_err(|e| e.to_string())?;
    let recs = db.batch_get_all_direct().await.map_err(|e| e.to_string())?;
    let mut snap = BTreeMap::new();
    for r in recs {
        snap.insert(r.get_full_binary_id(), r);
    }
    let view = TreeView::from_snapshot(&snap);
    // reachable childless nodes
    let mut reach = vec![];
    let mut stack = vec![view.root().label];
    let mut seen = BTreeSet::new();
    while let Some(l) = stack.pop() {
        if !seen.insert((l.label_len, l.label_val)) {
            continue;
        }
        if let Some(n) = view.get(&l) {
            let kids: Vec<NodeLabel> = [n.left_child, n.right_child].iter().flatten().cloned().collect();
            if kids.is_empty() && n.node_type == TreeNodeType::Leaf {
                reach.push((n.label, n.hash));
            }
            stack.extend(kids);
        }
    }
    Ok((root, reach))
}

fn related(a: &NodeLabel, b: &NodeLabel) -> bool {
    is_prefix(a, b) || is_prefix(b, a)
}

/// the narrow shape oracle of the statement's second sentence
fn node_set_overlaps(unchanged: &[AzksElement], inserted: &[AzksElement]) -> Option<String> {
    for (i, a) in unchanged.iter().enumerate() {
        for b in unchanged.iter().skip(i + 1) {
            if related(&a.label, &b.label) {
                return Some(format!("unchanged labels {:?} and {:?} overlap", a.label, b.label));
            }
        }
        for b in inserted {
            if related(&a.label, &b.label) {
                return Some(format!("inserted label {:?} overlaps unchanged label {:?}", b.label, a.label));
            }
        }
    }
    for (i, a) in inserted.iter().enumerate() {
        for b in inserted.iter().skip(i + 1) {
            if related(&a.label, &b.label) {
                return Some(format!("inserted labels {:?} and {:?} overlap", a.label, b.label));
            }
        }
    }
    None
}

async fn run_t<TC: ModelCfg>(spec: Spec) -> Out {
    let mut out = Out::default();
    let store = SimStore::new();
    let mgr = make_manager(store.handle(0), &CacheSpec::None);
    let par = AzksParallelismConfig { insertion: par_opt(spec.par_insert), preload: par_opt(0) };
    let mut azks = match Azks::new::<TC, _>(&mgr).await {
        Ok(a) => a,
        Err(e) => {
            out.herr = Some(format!("{e}"));
            return out;
        }
    };
    let mut hashes: Vec<[u8; 32]> = vec![azks.get_root_hash::<TC, _>(&mgr).await.unwrap()];
    let mut s1: Vec<Leaf> = vec![];
    for (i, b) in spec.batches.iter().enumerate() {
        let elems: Vec<AzksElement> = b.iter().map(|(l, v)| AzksElement { label: nl(l), value: AzksValue(*v) }).collect();
        if let Err(e) = azks.batch_insert_nodes::<TC, _>(&mgr, elems, InsertMode::Directory, par).await {
            out.herr = Some(format!("insert failed: {e}"));
            return out;
        }
        hashes.push(azks.get_root_hash::<TC, _>(&mgr).await.unwrap());
        for (l, v) in b {
            s1.push(Leaf { label: *l, commitment: *v, epoch: i as u64 + 1 });
        }
    }
    let e = azks.get_latest_epoch();
    let h1 = hashes[e as usize];
    let view1 = TreeView::from_snapshot(&store.snapshot());
    let real: BTreeMap<(u32, [u8; 32]), AzksValue> = view1.nodes.values().map(|n| ((n.label.label_len, n.label.label_val), TreeView::value_in_parent::<TC>(n))).collect();

    // honest continuation (sanity + material for chains): T2 = T1 + additions
    let honest_prev: Option<SingleAppendOnlyProof> = if e >= 2 {
        azks.get_append_only_proof::<TC, _>(&mgr, e - 1, e, par).await.ok().map(|p| p.proofs[0].clone())
    } else {
        None
    };

    let mut rng = Rng::new(spec.strat_seed);
    let mut shapes = BTreeSet::new();
    for _ in 0..spec.strategies {
        let nexp = rng.below(6) as u32;
        let cut = random_cut(&view1, &mut rng, nexp);
        if cut.is_empty() {
            break;
        }
        let mut unchanged: Vec<AzksElement> = cut.iter().map(|n| elem_of::<TC>(n)).collect();
        let mut inserted: Vec<AzksElement> = vec![];
        let interior: Vec<&&TreeNode> = cut.iter().filter(|n| n.node_type != TreeNodeType::Leaf).collect();
        let leafs: Vec<&&TreeNode> = cut.iter().filter(|n| n.node_type == TreeNodeType::Leaf).collect();
        let strat = rng.below(15);
        let mut expect_semantic_loss = false;
        let name = match strat {
            0 | 1 => {
                // shadowing with two leaves splitting exactly at the unchanged node's label
                if interior.is_empty() {
                    continue;
                }
                let x = **rng.pick(&interior);
                inserted.push(AzksElement { label: nl(&extend_label(&mut rng, &x.label, Some(0))), value: AzksValue(rand32(&mut rng)) });
                inserted.push(AzksElement { label: nl(&extend_label(&mut rng, &x.label, Some(1))), value: AzksValue(rand32(&mut rng)) });
                expect_semantic_loss = true;
                "shadow_two_leaves"
            }
            2 => {
                if interior.is_empty() {
                    continue;
                }
                let x = **rng.pick(&interior);
                inserted.push(AzksElement { label: nl(&extend_label(&mut rng, &x.label, None)), value: AzksValue(rand32(&mut rng)) });
                expect_semantic_loss = true;
                "shadow_one_leaf"
            }
            3 => {
                // two leaves below the unchanged node sharing a longer prefix
                if interior.is_empty() {
                    continue;
                }
                let x = **rng.pick(&interior);
                let a = extend_label(&mut rng, &x.label, None);
                let mut b = a;
                b[31] ^= 1;
                inserted.push(AzksElement { label: nl(&a), value: AzksValue(rand32(&mut rng)) });
                inserted.push(AzksElement { label: nl(&b), value: AzksValue(rand32(&mut rng)) });
                expect_semantic_loss = true;
                "shadow_deep_pair"
            }
            4 => {
                // same label in unchanged and inserted (leaf replaced)
                if leafs.is_empty() {
                    continue;
                }
                let x = **rng.pick(&leafs);
                inserted.push(AzksElement { label: x.label, value: AzksValue(rand32(&mut rng)) });
                expect_semantic_loss = true;
                "replace_leaf_same_label"
            }
            5 => {
                // ancestor and its complete children both listed as unchanged
                if interior.is_empty() {
                    continue;
                }
                let x = **rng.pick(&interior);
                for c in [x.left_child, x.right_child].iter().flatten() {
                    if let Some(ch) = view1.get(c) {
                        unchanged.push(elem_of::<TC>(ch));
                    }
                }
                if rng.chance(1, 2) {
                    if let Some((l, v)) = spec.additions.first() {
                        inserted.push(AzksElement { label: nl(l), value: AzksValue(*v) });
                    }
                }
                "overlap_ancestor_and_children"
            }
            6 => {
                let d = unchanged[rng.below(unchanged.len() as u64) as usize];
                unchanged.push(d);
                "duplicate_unchanged"
            }
            7 => {
                let (l, v) = match spec.additions.first() {
                    Some(x) => *x,
                    None => continue,
                };
                inserted.push(AzksElement { label: nl(&l), value: AzksValue(v) });
                inserted.push(AzksElement { label: nl(&l), value: AzksValue(if rng.chance(1, 2) { v } else { rand32(&mut rng) }) });
                "duplicate_inserted"
            }
            8 => {
                // an inserted element with an interior (short) label that covers an unchanged node
                if interior.is_empty() {
                    continue;
                }
                let x = **rng.pick(&interior);
                inserted.push(AzksElement { label: x.label, value: AzksValue(rand32(&mut rng)) });
                expect_semantic_loss = true;
                "inserted_with_interior_label"
            }
            9 => {
                // delete: drop one unchanged element (start hash must then fail)
                let i = rng.below(unchanged.len() as u64) as usize;
                unchanged.remove(i);
                "drop_unchanged"
            }
            10 => {
                // re-date: move an old leaf from unchanged to inserted (start hash must then fail)
                if leafs.is_empty() {
                    continue;
                }
                let x = **rng.pick(&leafs);
                unchanged.retain(|u| u.label != x.label);
                inserted.push(AzksElement { label: x.label, value: x.hash });
                "redate_leaf"
            }
            11 => {
                // claim that the earlier tree was empty: no unchanged nodes at all, everything "inserted" afresh
                unchanged.clear();
                inserted.push(AzksElement { label: nl(&rand32(&mut rng)), value: AzksValue(rand32(&mut rng)) });
                if let Some((l, v)) = spec.additions.first() {
                    inserted.push(AzksElement { label: nl(l), value: AzksValue(*v) });
                }
                expect_semantic_loss = true;
                "earlier_tree_claimed_empty"
            }
            12 => {
                // an unchanged interior node whose label carries stray bits beyond its length, shadowed from below
                if interior.is_empty() {
                    continue;
                }
                let x = **rng.pick(&interior);
                if x.label.label_len >= 250 {
                    continue;
                }
                for u in unchanged.iter_mut() {
                    if u.label == x.label {
                        let i = x.label.label_len + 1 + rng.below(4) as u32;
                        u.label.label_val[(i / 8) as usize] |= 1 << (7 - (i % 8));
                    }
                }
                inserted.push(AzksElement { label: nl(&extend_label(&mut rng, &x.label, Some(0))), value: AzksValue(rand32(&mut rng)) });
                inserted.push(AzksElement { label: nl(&extend_label(&mut rng, &x.label, Some(1))), value: AzksValue(rand32(&mut rng)) });
                expect_semantic_loss = true;
                "shadow_under_label_with_stray_bits"
            }
            13 => {
                // a single unchanged element (the whole earlier tree as one node is not possible: the child of a one-sided
                // root is) plus a shadowing leaf
                if unchanged.len() != 1 || interior.is_empty() {
                    continue;
                }
                let x = **rng.pick(&interior);
                inserted.push(AzksElement { label: nl(&extend_label(&mut rng, &x.label, None)), value: AzksValue(rand32(&mut rng)) });
                expect_semantic_loss = true;
                "shadow_single_unchanged_element"
            }
            _ => {
                // additions below or beside a random cut (mostly overlapping an unchanged node)
                for (l, v) in &spec.additions {
                    inserted.push(AzksElement { label: nl(l), value: AzksValue(*v) });
                }
                "additions_over_random_cut"
            }
        };
        rng.shuffle(&mut unchanged);
        rng.shuffle(&mut inserted);
        let (h2, reach) = match reconstruct::<TC>(&unchanged, &inserted, e + 1).await {
            Ok(x) => x,
            Err(_) => {
                out.p(&format!("strategy_{name}_reconstruction_refused"));
                continue;
            }
        };
        // single link, and (when available) a chain with an honest first link and the cheat in the second
        let chain = honest_prev.is_some() && rng.chance(1, 3);
        let (hs, proof) = if chain {
            (
                vec![hashes[e as usize - 1], h1, h2],
                AppendOnlyProof { proofs: vec![honest_prev.clone().unwrap(), SingleAppendOnlyProof { inserted: inserted.clone(), unchanged_nodes: unchanged.clone() }], epochs: vec![e - 1, e] },
            )
        } else {
            (vec![h1, h2], AppendOnlyProof { proofs: vec![SingleAppendOnlyProof { inserted: inserted.clone(), unchanged_nodes: unchanged.clone() }], epochs: vec![e] })
        };
        out.checks += 1;
        let accepted = akd::auditor::audit_verify::<TC>(hs.clone(), proof.clone()).await.is_ok();
        out.p(&format!("strategy_{name}_{}", if accepted { "accepted" } else { "rejected" }));
        if accepted {
            // semantic oracle: every leaf of S1 still committed, unchanged, by h2
            let mut committed: BTreeSet<H32> = BTreeSet::new();
            for (l, v) in &reach {
                if real.get(&(l.label_len, l.label_val)) == Some(v) && unchanged.iter().any(|u| u.label == *l && u.value == *v) {
                    for s in &s1 {
                        if is_prefix(l, &nl(&s.label)) {
                            committed.insert(s.label);
                        }
                    }
                }
            }
            let lost: Vec<&Leaf> = s1.iter().filter(|s| !committed.contains(&s.label)).collect();
            if !lost.is_empty() {
                let mut v = Violation::new(
                    "c09_removed_leaf_accepted",
                    format!("strategy {name}{}: audit_verify accepted although {} of {} earlier leaves (first: {}) are no longer committed by the end hash", if chain { " (second link of a chain)" } else { "" }, lost.len(), s1.len(), hex::encode(lost[0].label)),
                );
                v.facts.insert("strategy".into(), json!(name));
                out.v(v);
            } else if expect_semantic_loss {
                out.p("cheat_accepted_without_loss");
            }
            if let Some(why) = node_set_overlaps(&unchanged, &inserted) {
                let mut v = Violation::new("c09_overlapping_node_set_accepted", format!("strategy {name}: accepted proof whose node set shadows/duplicates/overlaps: {why}"));
                v.facts.insert("strategy".into(), json!(name));
                out.v(v);
            }
            if name == "drop_unchanged" || name == "redate_leaf" {
                out.v(Violation::new("c09_start_hash_not_checked", format!("strategy {name} accepted")));
            }
            shapes.insert(name);
            // replacing any root hash by a different value must make verification fail
            for i in 0..hs.len() {
                let mut bad = hs.clone();
                bad[i][rng.below(32) as usize] ^= 1 << rng.below(8);
                out.checks += 1;
                if akd::auditor::audit_verify::<TC>(bad, proof.clone()).await.is_ok() {
                    out.v(Violation::new("c09_wrong_root_hash_accepted", format!("hash {i} of {} replaced, proof still accepted", hs.len())));
                }
            }
        }
        // list-shape faults on whatever proof we have (accepted or not, they must be refused)
        if accepted && rng.chance(1, 2) {
            let k = rng.below(5);
            let mut p = proof.clone();
            let mut h = hs.clone();
            let what = match k {
                0 => {
                    p.epochs.push(e + 1);
                    "surplus_epoch"
                }
                1 => {
                    p.proofs.push(p.proofs[0].clone());
                    "surplus_proof"
                }
                2 => {
                    h.push(h2);
                    "surplus_hash"
                }
                3 => {
                    h.pop();
                    "missing_hash"
                }
                _ => {
                    if p.epochs.len() < 2 {
                        continue;
                    }
                    // non-consecutive epoch list: the second link claims a later epoch than the hashes allow
                    p.epochs[1] += 3;
                    // the server is free to choose the end hash accordingly
                    if let Ok((h2b, _)) = reconstruct::<TC>(&p.proofs[1].unchanged_nodes, &p.proofs[1].inserted, p.epochs[1] + 1).await {
                        h[2] = h2b;
                    }
                    "non_consecutive_epochs"
                }
            };
            out.checks += 1;
            if akd::auditor::audit_verify::<TC>(h, p).await.is_ok() {
                let mut v = Violation::new("c09_inconsistent_lists_accepted", format!("list fault {what} accepted"));
                v.facts.insert("fault".into(), json!(what));
                out.v(v);
            } else {
                out.p(&format!("list_fault_{what}_rejected"));
            }
        }
    }
    // ---- the honest continuation, for the list-shape and wrong-hash clauses on proofs that do verify ----
    if !spec.additions.is_empty() {
        let elems: Vec<AzksElement> = spec.additions.iter().map(|(l, v)| AzksElement { label: nl(l), value: AzksValue(*v) }).collect();
        if azks.batch_insert_nodes::<TC, _>(&mgr, elems, InsertMode::Directory, par).await.is_ok() {
            hashes.push(azks.get_root_hash::<TC, _>(&mgr).await.unwrap());
            let start = if e >= 1 && rng.chance(1, 2) { e - 1 } else { e };
            if let Ok(proof) = azks.get_append_only_proof::<TC, _>(&mgr, start, e + 1, par).await {
                let hs: Vec<[u8; 32]> = (start..=e + 1).map(|i| hashes[i as usize]).collect();
                out.checks += 1;
                if akd::auditor::audit_verify::<TC>(hs.clone(), proof.clone()).await.is_ok() {
                    out.p("honest_proof_accepted");
                    for i in 0..hs.len() {
                        let mut bad = hs.clone();
                        bad[i][rng.below(32) as usize] ^= 1 << rng.below(8);
                        out.checks += 1;
                        if akd::auditor::audit_verify::<TC>(bad, proof.clone()).await.is_ok() {
                            out.v(Violation::new("c09_wrong_root_hash_accepted", format!("hash {i} of {} of an honest proof replaced, still accepted", hs.len())));
                        }
                    }
                    for k in 0..6 {
                        let mut p = proof.clone();
                        let mut h = hs.clone();
                        let what = match k {
                            0 => {
                                p.epochs.push(e + 1);
                                "surplus_epoch"
                            }
                            1 => {
                                p.proofs.push(p.proofs[0].clone());
                                "surplus_proof"
                            }
                            2 => {
                                h.push(hs[hs.len() - 1]);
                                "surplus_hash"
                            }
                            3 => {
                                h.pop();
                                "missing_hash"
                            }
                            4 => {
                                p.proofs.pop();
                                "missing_proof"
                            }
                            _ => {
                                if p.epochs.len() < 2 {
                                    continue;
                                }
                                p.epochs[1] += 2;
                                if let Ok((hb, _)) = reconstruct::<TC>(&p.proofs[1].unchanged_nodes, &p.proofs[1].inserted, p.epochs[1] + 1).await {
                                    h[2] = hb;
                                }
                                "non_consecutive_epochs"
                            }
                        };
                        out.checks += 1;
                        if akd::auditor::audit_verify::<TC>(h, p).await.is_ok() {
                            let mut v = Violation::new("c09_inconsistent_lists_accepted", format!("list fault {what} on an honest proof accepted"));
                            v.facts.insert("fault".into(), json!(what));
                            out.v(v);
                        } else {
                            out.p(&format!("list_fault_{what}_rejected"));
                        }
                    }
                } else {
                    out.p("honest_proof_rejected_(C04_territory)");
                }
            }
        }
    }
    if s1.len() >= 3 && view1.nodes.values().filter(|n| n.node_type == TreeNodeType::Interior).count() >= 1 {
        out.nontrivial.push(fp(&(s1.iter().map(|l| l.label).collect::<Vec<_>>(), spec.strat_seed)));
    }
    out
}

pub struct C09;

impl Arm for C09 {
    fn id(&self) -> &'static str {
        "C09"
    }
    fn runs(&self, tier: Tier) -> u64 {
        match tier {
            Tier::Quick => 4000,
            Tier::Thorough => 100_000,
        }
    }
    fn gen(&self, rng: &mut Rng, tier: Tier, _i: u64) -> Value {
        serde_json::to_value(gen(rng, tier)).unwrap()
    }
    fn run(&self, spec_v: &Value, chooser: &ChooserSpec, log: bool) -> RunReport {
        let mut rep = RunReport::default();
        let spec: Spec = match serde_json::from_value(spec_v.clone()) {
            Ok(s) => s,
            Err(e) => {
                rep.harness_error = Some(format!("bad spec: {e}"));
                return rep;
            }
        };
        let simcfg = SimCfg { policy: spec.policy, ..SimCfg::default() };
        let sample = json!({"cfg": format!("{:?}", spec.cfg), "earlier_leaves_per_epoch": spec.batches.iter().map(|b| b.len()).collect::<Vec<_>>(), "honest_additions": spec.additions.len(), "strategies": spec.strategies});
        let res = match spec.cfg {
            Cfg::WhatsApp => sched::run_sim(simcfg, chooser, log, run_t::<akd::WhatsAppV1Configuration>(spec)),
            Cfg::Experimental => sched::run_sim(simcfg, chooser, log, run_t::<akd::ExperimentalConfiguration<akd::ExampleLabel>>(spec)),
        };
        if let Some(o) = rep.absorb(res) {
            rep.checks = o.checks;
            for (k, c) in o.probes {
                rep.probe_n(&k, c);
            }
            rep.nontrivial = o.nontrivial;
            rep.harness_error = rep.harness_error.take().or(o.herr);
            for v in o.violations {
                rep.violate(v);
            }
        }
        rep.sample = Some(sample);
        rep
    }
    fn shrink(&self, spec: &Value) -> Vec<Value> {
        let mut out = vec![];
        if let Some(bs) = spec.get("batches").and_then(|b| b.as_array()) {
            for (i, b) in bs.iter().enumerate() {
                let n = b.as_array().map(|a| a.len()).unwrap_or(0);
                for j in 0..n {
                    let mut c = spec.clone();
                    c["batches"][i].as_array_mut().unwrap().remove(j);
                    out.push(c);
                }
            }
        }
        out.extend(crate::harness::drop_candidates(spec, &["additions"]));
        for (k, v) in [("par_insert", json!(0)), ("policy", json!({"Fifo": 0}))] {
            if spec.get(k) != Some(&v) {
                let mut c = spec.clone();
                c[k] = v;
                out.push(c);
            }
        }
        out
    }
    fn rule(&self) -> String {
        "one case = one real tree T1 over a seeded leaf set S1 (2..40 leaves, prefix-engineered, 1..3 epochs, built by the real Azks under the simulator) and a seeded series of append-only proofs a server can assemble from T1's real nodes: a random cut of T1 as `unchanged` plus a cheat — leaves inserted under an unchanged interior node (two splitting at its label, one, or a deep pair), a leaf re-inserted under the same label, an interior-length inserted label, ancestor and descendants both unchanged, duplicated unchanged/inserted elements, a dropped or re-dated unchanged element — single links and two-link chains with an honest first link; the END HASH IS CHOSEN BY THE SERVER as the hash the auditor's own reconstruction yields (replicated with the real insertion code), so only the auditor's structural checks can refuse. Oracle: if audit_verify accepts, every leaf of S1 must still be reachable (hence committed, unchanged) in the reconstructed later tree; an accepted node set must be prefix-free (no shadowing / duplicate / overlap); inconsistent hash/epoch/proof lists incl. a non-consecutive epoch list must be refused; flipping a bit of any root hash must make an accepted proof fail. non-trivial = S1 has >= 3 leaves and T1 an interior node; distinct = distinct (S1, strategy seed)".into()
    }
    fn assumptions(&self) -> Vec<String> {
        vec![
            "collision resistance: 'committed by h' is decided by reachability in the tree the auditor's procedure builds, replicated with akd's real insertion code".into(),
            "the Byzantine server uses real nodes of T1 and fresh random leaves; it does not search for hash collisions".into(),
            "no schedule dimension in audit verification; the schedule only affects how T1 is built".into(),
        ]
    }
}
