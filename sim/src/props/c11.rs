//! C11: a reader of a partially written commit still sees the previous epoch intact.
//! Crash-point enumeration over the record writes of every commit.

use crate::harness::{Arm, RunReport, Tier, Violation};
use crate::histarm::{check_reads, gen_cache, gen_hist_spec, make_manager, par_opt, CacheSpec, Checks, GenProfile, HistSpec, Obs, Op, Reader};
use crate::model::{to_akd_batch, Cfg, Model, ModelCfg, PublishOutcome, SimVrf};
use crate::rng::{fp, ChooserSpec, Rng};
use crate::sched::{self, SimCfg};
use crate::simdb::{is_azks, SimStore};
use akd::append_only_zks::AzksParallelismConfig;
use akd::directory::{Directory, ReadOnlyDirectory};
use akd::storage::types::DbRecord;
use serde::{Deserialize, Serialize};
use serde_json::{json, Value};
use std::collections::BTreeMap;

#[derive(Clone, Debug, Serialize, Deserialize)]
pub struct Spec {
    pub hist: HistSpec,
    pub perm_seed: u64,
    /// 0 = every prefix length; otherwise at most this many prefix lengths per commit
    pub max_prefixes: u32,
    pub subsets: u32,
    pub reader_cache: CacheSpec,
    /// replay a single crash point: (index of the op in hist.ops, point number)
    pub only: Option<(usize, usize)>,
    /// Some(seed): every publish meets one transient storage fault at a seeded operation index; a publish that
    /// fails on it is repeated without the fault (what a failed publish leaves behind is C10's subject), one that
    /// succeeds regardless is analysed like any other
    #[serde(default)]
    pub read_fault_seed: Option<u64>,
}

fn gen(rng: &mut Rng, tier: Tier) -> Spec {
    let thorough = tier == Tier::Thorough;
    let prof = GenProfile { max_labels: 8, max_epochs: if thorough { 10 } else { 6 }, max_batch: 6, tombstones: false, restarts: false, clock: false };
    let mut hist = gen_hist_spec(rng, &prof, Checks::default());
    hist.h2_mask = 0;
    Spec {
        hist,
        perm_seed: rng.next_u64(),
        max_prefixes: if thorough { 0 } else { 6 },
        subsets: if thorough { 12 } else { 3 },
        reader_cache: gen_cache(rng),
        only: None,
        read_fault_seed: if rng.chance(1, 3) { Some(rng.next_u64()) } else { None },
    }
}

#[derive(Default)]
struct Out {
    violations: Vec<Violation>,
    checks: u64,
    probes: BTreeMap<String, u64>,
    nontrivial: Vec<u64>,
    states: Vec<u64>,
    herr: Option<String>,
    failing_point: Option<(usize, usize)>,
}
impl Out {
    fn p(&mut self, n: &str) {
        *self.probes.entry(n.to_string()).or_insert(0) += 1;
    }
}

/// the crash points of one commit: which of the records (canonical order, epoch record last) have reached storage
fn crash_points(n_other: usize, rng: &mut Rng, max_prefixes: u32, subsets: u32) -> Vec<(String, Vec<usize>)> {
    let mut perm: Vec<usize> = (0..n_other).collect();
    rng.shuffle(&mut perm);
    let mut lens: Vec<usize> = (0..=n_other).collect();
    if max_prefixes != 0 && lens.len() > max_prefixes as usize {
        let mut keep = vec![0, 1.min(n_other), n_other.saturating_sub(1), n_other];
        while keep.len() < max_prefixes as usize {
            keep.push(rng.below(n_other as u64 + 1) as usize);
        }
        keep.sort();
        keep.dedup();
        lens = keep;
    }
    let mut pts: Vec<(String, Vec<usize>)> = lens.into_iter().map(|l| (format!("prefix {l}/{n_other} of a seeded permutation"), perm[..l].to_vec())).collect();
    for _ in 0..subsets {
        let s: Vec<usize> = (0..n_other).filter(|_| rng.chance(1, 2)).collect();
        pts.push((format!("arbitrary subset of {} of {n_other}", s.len()), s));
    }
    pts
}

async fn run_t<TC: ModelCfg>(spec: Spec) -> Out {
    let mut out = Out::default();
    let h = &spec.hist;
    let mut model = Model::new(TC::CFG);
    let store = SimStore::new();
    store.set_capture(true);
    let vrf = SimVrf::default();
    let par = AzksParallelismConfig { insertion: par_opt(h.par_insert), preload: par_opt(h.par_preload) };
    let mgr = make_manager(store.handle(0), &h.cache);
    let dir = match Directory::<TC, _, _>::new(mgr.clone(), vrf.clone(), par).await {
        Ok(d) => d,
        Err(e) => {
            out.herr = Some(format!("Directory::new: {e}"));
            return out;
        }
    };
    let pk = dir.get_public_key().await.unwrap().as_bytes().to_vec();
    let checks = Checks { c02: true, c03: true, c04: true, every: 1, audit_pairs: 2, ..Default::default() };
    for (oi, op) in h.ops.iter().enumerate() {
        let batch = match op {
            Op::Publish(b) => b,
            _ => continue,
        };
        let oc = model.classify(batch);
        let _ = store.take_commits();
        let mut res = {
            if let Some(seed) = spec.read_fault_seed {
                let k = Rng::new(crate::rng::mix(&[seed, oi as u64])).below(40);
                let base = sched::db_ops_so_far(0);
                sched::set_fault_plan(|f| f.fail_at.push((0, base + k)));
            }
            dir.publish(to_akd_batch(batch)).await
        };
        if spec.read_fault_seed.is_some() {
            sched::set_fault_plan(|f| f.fail_at.clear());
            if res.is_err() && oc == PublishOutcome::Advanced {
                out.p("publish_failed_on_the_injected_fault_and_was_repeated");
                for _ in 0..2000 {
                    if sched::pending_count() == 0 {
                        break;
                    }
                    tokio::time::sleep(std::time::Duration::from_millis(2)).await;
                }
                let _ = store.take_commits();
                res = dir.publish(to_akd_batch(batch)).await;
                if res.is_err() {
                    // the failed attempt left something behind: C10's subject, this run is not judged further
                    out.p("repeated_publish_failed_(run_not_judged)");
                    return out;
                }
            } else if oc == PublishOutcome::Advanced {
                out.p("publish_unaffected_by_the_injected_fault_position");
            }
        }
        let prev = model.at_epoch(model.epoch);
        model.publish(batch);
        if oc != PublishOutcome::Advanced {
            continue;
        }
        if let Err(e) = res {
            out.herr = Some(format!("fault-free publish failed: {e}"));
            return out;
        }
        let commits = store.take_commits();
        if commits.len() != 1 {
            out.violations.push(Violation::new("c11_commit_count", format!("publish handed {} commit batches to the database", commits.len())));
            return out;
        }
        let c = &commits[0];
        if !c.had_azks || !c.azks_was_last {
            out.violations.push(Violation::new("c11_epoch_record_not_last", format!("commit batch of epoch {}: epoch record present={} last={}", model.epoch, c.had_azks, c.azks_was_last)));
        }
        let others: Vec<&DbRecord> = c.records.iter().filter(|r| !is_azks(r)).collect();
        let azks: Vec<&DbRecord> = c.records.iter().filter(|r| is_azks(r)).collect();
        // shape probes: does this commit create, split and update nodes?
        let mut created = 0;
        let mut updated = 0;
        for r in &others {
            if let DbRecord::TreeNode(n) = r {
                if c.before.contains_key(&r.get_full_binary_id()) {
                    updated += 1;
                    if n.latest_node.parent != c.before.get(&r.get_full_binary_id()).and_then(|b| if let DbRecord::TreeNode(bn) = b { Some(bn.latest_node.parent) } else { None }).unwrap_or(n.latest_node.parent) {
                        out.p("commit_reparents_existing_node_(split)");
                    }
                } else {
                    created += 1;
                }
            }
        }
        if created > 0 {
            out.p("commit_creates_nodes");
        }
        if updated > 0 {
            out.p("commit_updates_existing_nodes");
        }
        // every publish draws from its own stream, so that replaying a single crash point (`only`) sees the
        // same points as the enumeration did
        let mut prng = Rng::new(spec.perm_seed ^ ((oi as u64 + 1) << 20));
        let mut points = crash_points(others.len(), &mut prng, spec.max_prefixes, spec.subsets);
        points.push(("all records incl. the epoch record".into(), (0..others.len()).collect()));
        let last = points.len() - 1;
        for (pi, (desc, idxs)) in points.iter().enumerate() {
            if let Some((o, p)) = spec.only {
                if o != oi || p != pi {
                    continue;
                }
            }
            let complete = pi == last;
            let mut snap = c.before.clone();
            for i in idxs {
                let r = others[*i];
                snap.insert(r.get_full_binary_id(), r.clone());
            }
            if complete {
                for r in &azks {
                    snap.insert(r.get_full_binary_id(), (*r).clone());
                }
            }
            let want = if complete { &model } else { &prev };
            let rstore = SimStore::from_records(&snap).await;
            let rmgr = make_manager(rstore.handle(2), &spec.reader_cache);
            let (we, wh) = want.current();
            let mut facts: BTreeMap<String, Value> = BTreeMap::new();
            facts.insert("point".into(), json!(desc));
            let before_v = out.violations.len();
            match ReadOnlyDirectory::<TC, _, _>::new(rmgr.clone(), vrf.clone(), par).await {
                Err(e) => out.violations.push(Violation::new("c11_reader_open_failed", format!("epoch {} {desc}: {e}", model.epoch))),
                Ok(ro) => {
                    out.checks += 1;
                    match ro.get_epoch_hash().await {
                        Ok(eh) if eh.0 == we && eh.1 == wh => {}
                        Ok(eh) => out.violations.push(Violation::new("c11_epoch_hash", format!("commit of epoch {} at crash point [{desc}]: a fresh reader reports ({}, {}) expected ({we}, {})", model.epoch, eh.0, hex::encode(eh.1), hex::encode(wh)))),
                        Err(e) => out.violations.push(Violation::new("c11_epoch_hash_err", format!("commit of epoch {} at [{desc}]: {e}", model.epoch))),
                    }
                    let mut obs = Obs::default();
                    let mut crng = Rng::new(spec.perm_seed ^ (pi as u64) << 8 ^ oi as u64);
                    check_reads::<TC>(&Reader::Ro(ro), want, &h.universe, &checks, &mut crng, &mut obs, &pk, false).await;
                    out.checks += obs.checks;
                    for mut v in obs.violations {
                        v.class = format!("c11_reader:{}", v.class);
                        v.detail = format!("commit of epoch {} at crash point [{desc}]: {}", model.epoch, v.detail);
                        out.violations.push(v);
                    }
                }
            }
            // a fresh writer-capable instance must agree on the epoch hash as well
            if Rng::new(spec.perm_seed ^ ((oi as u64 + 1) << 20) ^ (pi as u64 + 1)).chance(1, 3) {
                let wmgr = make_manager(rstore.handle(3), &CacheSpec::None);
                if let Ok(d2) = Directory::<TC, _, _>::new(wmgr, vrf.clone(), par).await {
                    out.checks += 1;
                    match d2.get_epoch_hash().await {
                        Ok(eh) if eh.0 == we && eh.1 == wh => {}
                        other => out.violations.push(Violation::new("c11_fresh_directory_epoch_hash", format!("commit of epoch {} at [{desc}]: {other:?}", model.epoch))),
                    }
                }
            }
            if complete {
                out.p("complete_commit_served_new_epoch");
            } else {
                out.p("partial_commit_point_checked");
                if !idxs.is_empty() && idxs.len() < others.len() {
                    out.nontrivial.push(fp(&(rstore.digest(), pi)));
                }
            }
            out.states.push(rstore.digest());
            if out.violations.len() > before_v {
                for v in out.violations.iter_mut().skip(before_v) {
                    v.facts = facts.clone();
                }
                out.failing_point = Some((oi, pi));
                return out;
            }
        }
    }
    out
}

pub struct C11;

impl Arm for C11 {
    fn id(&self) -> &'static str {
        "C11"
    }
    fn level(&self) -> &'static str {
        "fault_enumeration"
    }
    fn runs(&self, tier: Tier) -> u64 {
        match tier {
            Tier::Quick => 250,
            Tier::Thorough => 1500,
        }
    }
    fn gen(&self, rng: &mut Rng, tier: Tier, _i: u64) -> Value {
        serde_json::to_value(gen(rng, tier)).unwrap()
    }
    fn run(&self, spec_v: &Value, chooser: &ChooserSpec, log: bool) -> RunReport {
        let mut rep = RunReport::default();
        let spec: Spec = match serde_json::from_value(spec_v.clone()) {
            Ok(s) => s,
            Err(e) => {
                rep.harness_error = Some(format!("bad spec: {e}"));
                return rep;
            }
        };
        let simcfg = SimCfg { policy: spec.hist.policy, h2_mask: 0, ..SimCfg::default() };
        let sample = json!({"history": crate::histarm::summarize(&spec.hist), "reader_cache": format!("{:?}", spec.reader_cache), "max_prefixes": spec.max_prefixes, "subsets": spec.subsets});
        let s2 = spec.clone();
        let res = match spec.hist.cfg {
            Cfg::WhatsApp => sched::run_sim(simcfg, chooser, log, run_t::<akd::WhatsAppV1Configuration>(s2)),
            Cfg::Experimental => sched::run_sim(simcfg, chooser, log, run_t::<akd::ExperimentalConfiguration<akd::ExampleLabel>>(s2)),
        };
        if let Some(o) = rep.absorb(res) {
            rep.checks = o.checks;
            for (k, c) in o.probes {
                rep.probe_n(&k, c);
            }
            rep.nontrivial = o.nontrivial;
            rep.states = o.states;
            rep.harness_error = rep.harness_error.take().or(o.herr);
            if let Some(pt) = o.failing_point {
                let mut s3 = spec.clone();
                s3.only = Some(pt);
                rep.spec_override = Some(serde_json::to_value(&s3).unwrap());
            }
            for v in o.violations {
                rep.violate(v);
            }
        }
        rep.sample = Some(sample);
        rep
    }
    fn shrink(&self, spec: &Value) -> Vec<Value> {
        // only configuration is simplified: dropping operations would invalidate the recorded crash point
        let mut out = vec![];
        for (k, v) in [("par_insert", json!(0)), ("par_preload", json!(0)), ("cache", json!("None")), ("policy", json!({"Fifo": 0}))] {
            if spec["hist"].get(k) != Some(&v) {
                let mut c = spec.clone();
                c["hist"][k] = v;
                out.push(c);
            }
        }
        if spec.get("reader_cache") != Some(&json!("None")) {
            let mut c = spec.clone();
            c["reader_cache"] = json!("None");
            out.push(c);
        }
        out
    }
    fn rule(&self) -> String {
        "one evaluation = one seeded publish history (<= 8 labels, <= 10 epochs) on the real Directory (in a third of the cases every publish meets one transient storage fault at a seeded operation index 0..39: a publish failing on it is repeated fault-free, one that goes through regardless is analysed as it is); the record batch of every commit is intercepted and for EVERY prefix length of a seeded permutation of its non-epoch records (thorough; quick: 0, 1, m-1, m and seeded lengths) plus seeded arbitrary subsets, the storage state 'previous state + those records' is materialised and a fresh ReadOnlyDirectory (cached or not, per run) and a fresh Directory are opened on it: epoch hash must be the previous pair, every label's lookup/history and audits must verify to the previous state, labels first published in the unfinished epoch must be unknown; with the epoch record applied the new epoch must be served completely. It is also checked that the commit hands the database exactly one batch whose last record is the epoch record. non-trivial crash point = a proper, non-empty subset of the non-epoch records; distinct = distinct storage digests".into()
    }
    fn assumptions(&self) -> Vec<String> {
        vec![
            "storage is record-atomic: a record is either the old or the new version, never torn".into(),
            "the epoch record is written last (the documented contract); orders that violate it are not produced, but a commit batch that does not end in the epoch record is reported".into(),
            "readers open after the crash point (static enumeration); readers running across several record writes are C13's subject".into(),
        ]
    }
}
