//! C06 / C07: soundness of lookup and history verification against a Byzantine server
//! (forged, replayed, mis-assembled answers over an honestly maintained directory) and, for
//! C07, against a Byzantine publisher that omits or delays a stale marker.

use crate::byz::TreeView;
use crate::forge::{marker_version, Forge};
use crate::harness::{Arm, RunReport, Tier, Violation};
use crate::histarm::{gen_hist_spec, make_manager, par_opt, short, to_hp, CacheSpec, Checks, GenProfile, HistSpec, Op};
use crate::model::{futures_now, to_akd_batch, Cfg, Model, ModelCfg, PublishOutcome, SimVrf};
use crate::rng::{fp, ChooserSpec, Rng};
use crate::sched::{self, SimCfg};
use crate::simdb::SimStore;
use crate::wire;
use akd::append_only_zks::{AzksParallelismConfig, InsertMode};
use akd::directory::Directory;
use akd::ecvrf::VRFKeyStorage;
use akd::storage::types::DbRecord;
use akd::verify::history::HistoryParams;
use akd::{AkdLabel, AkdValue, Azks, AzksElement, AzksValue, HistoryProof, HistoryVerificationParams, LookupProof, MembershipProof, VersionFreshness};
use serde::{Deserialize, Serialize};
use serde_json::{json, Value};
use std::collections::BTreeMap;

#[derive(Clone, Debug, Serialize, Deserialize)]
pub struct Spec {
    pub hist: HistSpec,
    pub move_seed: u64,
    pub moves: u32,
    /// C07 second half: at this publish index the publisher cheats on the stale marker of a label (None = honest)
    pub publisher_cheat: Option<(usize, bool)>,
}

#[derive(Default)]
struct Out {
    violations: Vec<Violation>,
    checks: u64,
    probes: BTreeMap<String, u64>,
    nontrivial: Vec<u64>,
    herr: Option<String>,
}
impl Out {
    fn p(&mut self, n: &str) {
        *self.probes.entry(n.to_string()).or_insert(0) += 1;
    }
    fn v(&mut self, class: &str, d: String, mv: &str) {
        if self.violations.len() < 8 {
            let mut v = Violation::new(class, d);
            v.facts.insert("move".into(), json!(mv));
            self.violations.push(v);
        }
    }
}

fn flip_byte(v: &mut [u8], rng: &mut Rng) {
    if !v.is_empty() {
        let i = rng.below(v.len() as u64) as usize;
        v[i] ^= 1 << rng.below(8);
    }
}

/// honest answers recorded along the way: (epoch, root hash, label) -> proof
struct Recorded {
    lookups: Vec<(u64, [u8; 32], Vec<u8>, LookupProof)>,
    histories: Vec<(u64, [u8; 32], Vec<u8>, HistoryProof)>,
}

fn judge_lookup<TC: ModelCfg>(out: &mut Out, model: &Model, pk: &[u8], epoch: u64, root: [u8; 32], label: &[u8], proof: LookupProof, mv: &str) {
    out.checks += 1;
    // the answer crosses the wire like any other
    let proof = match wire::dec_lookup(&wire::enc_lookup(&proof)) {
        Ok(p) => p,
        Err(_) => {
            out.p(&format!("c06_{mv}_rejected"));
            return;
        }
    };
    match akd::client::lookup_verify::<TC>(pk, root, epoch, AkdLabel(label.to_vec()), proof) {
        Err(_) => out.p(&format!("c06_{mv}_rejected")),
        Ok(r) => {
            let want = model.latest_at(label, epoch);
            let ok = want.map(|w| w.version == r.version && w.epoch == r.epoch && w.value == r.value.0).unwrap_or(false);
            if ok {
                out.p(&format!("c06_{mv}_accepted_with_the_true_latest"));
            } else {
                out.v(
                    "c06_false_lookup_accepted",
                    format!("move {mv}: lookup_verify accepted (version {}, epoch {}, value {}) for label {} against epoch {epoch}, but the latest is {:?}", r.version, r.epoch, short(&r.value.0), short(label), want.map(|w| (w.version, w.epoch, short(&w.value)))),
                    mv,
                );
            }
        }
    }
}

#[allow(clippy::too_many_arguments)]
fn judge_history<TC: ModelCfg>(out: &mut Out, model: &Model, pk: &[u8], epoch: u64, root: [u8; 32], label: &[u8], proof: HistoryProof, hp: Option<usize>, mv: &str) {
    let proof = match wire::dec_history(&wire::enc_history(&proof)) {
        Ok(p) => p,
        Err(_) => {
            out.p(&format!("c07_{mv}_rejected"));
            return;
        }
    };
    let want: Vec<(u64, u64, Vec<u8>)> = model.history_at(label, epoch, hp).unwrap_or_default().iter().map(|v| (v.version, v.epoch, v.value.clone())).collect();
    for lax in [false, true] {
        out.checks += 1;
        let params = if lax { HistoryVerificationParams::AllowMissingValues { history_params: to_hp(hp) } } else { HistoryVerificationParams::Default { history_params: to_hp(hp) } };
        match akd::client::key_history_verify::<TC>(pk, root, epoch, AkdLabel(label.to_vec()), proof.clone(), params) {
            Err(_) => out.p(&format!("c07_{mv}_{}_rejected", if lax { "lax" } else { "strict" })),
            Ok(list) => {
                let got: Vec<(u64, u64, Vec<u8>)> = list.iter().map(|r| (r.version, r.epoch, r.value.0.clone())).collect();
                let same_shape = got.len() == want.len() && got.iter().zip(want.iter()).all(|(g, w)| g.0 == w.0 && g.1 == w.1);
                let values_ok = same_shape
                    && got.iter().zip(want.iter()).all(|(g, w)| {
                        if lax {
                            // a tombstone (empty value) may stand in for the true value only when the verifier opted in
                            g.2 == w.2 || g.2.is_empty()
                        } else {
                            g.2 == w.2
                        }
                    });
                if same_shape && values_ok {
                    out.p(&format!("c07_{mv}_{}_accepted_with_the_true_list", if lax { "lax" } else { "strict" }));
                } else {
                    // known protocol-level gap (see known_findings.json): under AllowMissingValues the epoch of a
                    // tombstoned (empty-valued) version-1 entry is not bound to anything the verifier can check
                    let only_v1_tombstone_epoch = lax
                        && got.len() == want.len()
                        && got.iter().zip(want.iter()).all(|(g, w)| g.0 == w.0 && (g.2 == w.2 || g.2.is_empty()) && (g.1 == w.1 || (g.0 == 1 && g.2.is_empty())));
                    if only_v1_tombstone_epoch {
                        if out.violations.len() < 8 {
                            let mut v = Violation::new("c07_false_history_accepted", format!("move {mv} (AllowMissingValues verifier, {hp:?}): accepted {:?} for label {} at epoch {epoch}, true list {:?}: the epoch of the tombstoned version-1 entry is unauthenticated", got.iter().map(|g| (g.0, g.1)).collect::<Vec<_>>(), short(label), want.iter().map(|g| (g.0, g.1)).collect::<Vec<_>>()));
                            v.facts.insert("only_the_epoch_of_a_tombstoned_version_1_entry_differs".into(), json!(true));
                            out.violations.push(v);
                        }
                        continue;
                    }
                    out.v(
                        "c07_false_history_accepted",
                        format!("move {mv} ({} verifier, {hp:?}): key_history_verify accepted {:?} for label {} at epoch {epoch}, but the true list is {:?}", if lax { "AllowMissingValues" } else { "default" }, got.iter().map(|g| (g.0, g.1, short(&g.2))).collect::<Vec<_>>(), short(label), want.iter().map(|g| (g.0, g.1, short(&g.2))).collect::<Vec<_>>()),
                        mv,
                    );
                }
            }
        }
    }
}

/// a dishonest publish done the way Directory::publish does it, but with the stale marker of
/// `victim`'s superseded version left out (it may be inserted `late` epochs afterwards)
#[allow(clippy::too_many_arguments)]
async fn cheating_publish<TC: ModelCfg>(mgr: &akd::storage::StorageManager<crate::simdb::SimDb>, vrf: &SimVrf, model: &mut Model, batch: &[(Vec<u8>, Vec<u8>)], victim: &[u8], only_late_marker: Option<u64>) -> Result<(), String> {
    let azks_rec = mgr.get::<Azks>(&akd::append_only_zks::DEFAULT_AZKS_KEY).await.map_err(|e| e.to_string())?;
    let mut azks = match azks_rec {
        DbRecord::Azks(a) => a,
        _ => return Err("no azks".into()),
    };
    let next_epoch = azks.latest_epoch + 1;
    let ckey = TC::hash(&vrf.0);
    let mut elems: Vec<AzksElement> = vec![];
    let mut states: Vec<DbRecord> = vec![];
    if let Some(stale_version) = only_late_marker {
        let nl = futures_now(vrf.get_node_label::<TC>(&AkdLabel(victim.to_vec()), VersionFreshness::Stale, stale_version)).map_err(|e| e.to_string())?;
        elems.push(AzksElement { label: nl, value: TC::stale_azks_value() });
    }
    for (l, v) in batch {
        let last = model.latest(l).cloned();
        match last {
            Some(ref x) if &x.value == v => {}
            _ => {
                let version = last.as_ref().map(|x| x.version + 1).unwrap_or(1);
                if let Some(x) = &last {
                    if l.as_slice() != victim {
                        let sl = futures_now(vrf.get_node_label::<TC>(&AkdLabel(l.clone()), VersionFreshness::Stale, x.version)).map_err(|e| e.to_string())?;
                        elems.push(AzksElement { label: sl, value: TC::stale_azks_value() });
                    }
                }
                let nl = futures_now(vrf.get_node_label::<TC>(&AkdLabel(l.clone()), VersionFreshness::Fresh, version)).map_err(|e| e.to_string())?;
                elems.push(AzksElement { label: nl, value: TC::compute_fresh_azks_value(&ckey, &nl, version, &AkdValue(v.clone())) });
                states.push(DbRecord::ValueState(DbRecord::build_user_state(l.clone(), v.clone(), version, 256, nl.label_val, next_epoch)));
            }
        }
    }
    if elems.is_empty() {
        return Err("nothing to publish".into());
    }
    if !mgr.begin_transaction() {
        return Err("transaction active".into());
    }
    azks.batch_insert_nodes::<TC, _>(mgr, elems, InsertMode::Directory, AzksParallelismConfig::disabled()).await.map_err(|e| e.to_string())?;
    let mut recs = vec![DbRecord::Azks(azks)];
    recs.extend(states);
    mgr.batch_set(recs).await.map_err(|e| e.to_string())?;
    mgr.commit_transaction().await.map_err(|e| e.to_string())?;
    // the model follows what the users were told (values and versions); the tree is what is dishonest
    model.publish(batch);
    Ok(())
}

async fn run_t<TC: ModelCfg>(spec: Spec, do_c06: bool, do_c07: bool) -> Out {
    let mut out = Out::default();
    let h = &spec.hist;
    let mut model = Model::new(TC::CFG);
    let store = SimStore::new();
    let vrf = SimVrf::default();
    let par = AzksParallelismConfig { insertion: par_opt(h.par_insert), preload: par_opt(h.par_preload) };
    let mgr = make_manager(store.handle(0), &CacheSpec::None);
    let dir = match Directory::<TC, _, _>::new(mgr.clone(), vrf.clone(), par).await {
        Ok(d) => d,
        Err(e) => {
            out.herr = Some(format!("Directory::new: {e}"));
            return out;
        }
    };
    let pk = dir.get_public_key().await.unwrap().as_bytes().to_vec();
    let mut rng = Rng::new(spec.move_seed);
    let mut rec = Recorded { lookups: vec![], histories: vec![] };
    let mut roots: Vec<[u8; 32]> = vec![model.hashes[0]];
    // (victim label, version whose stale marker is missing/late, epoch of the replacement, pending late insertion)
    let mut cheat: Option<(Vec<u8>, u64, u64, bool)> = None;
    let mut publish_idx = 0usize;
    for op in &h.ops {
        let b = match op {
            Op::Publish(b) => b,
            _ => continue,
        };
        let oc = model.classify(b);
        let mut cheated_now = false;
        if let (Some((at, late)), None) = (spec.publisher_cheat, &cheat) {
            // cheat on the first update of an existing label at or after the chosen publish index
            if publish_idx >= at && oc == PublishOutcome::Advanced {
                if let Some((victim, _)) = b.iter().find(|(l, v)| model.latest(l).map(|x| &x.value != v).unwrap_or(false)) {
                    let stale_version = model.latest(victim).unwrap().version;
                    match cheating_publish::<TC>(&mgr, &vrf, &mut model, b, victim, None).await {
                        Ok(()) => {
                            cheat = Some((victim.clone(), stale_version, model.epoch, late));
                            cheated_now = true;
                            out.p("publisher_omitted_stale_marker");
                        }
                        Err(e) => {
                            out.herr = Some(format!("cheating publish failed: {e}"));
                            return out;
                        }
                    }
                }
            }
        }
        if !cheated_now {
            // a late marker goes in with the next honest epoch (as its own dishonest publish)
            if let Some((victim, sv, _, true)) = cheat.clone() {
                if oc == PublishOutcome::Advanced && !b.iter().any(|(l, _)| *l == victim) {
                    if cheating_publish::<TC>(&mgr, &vrf, &mut model, b, &victim, Some(sv)).await.is_ok() {
                        cheat.as_mut().unwrap().3 = false;
                        out.p("publisher_inserted_stale_marker_late");
                        let r = dir.get_epoch_hash().await.map(|e| e.1).unwrap_or([0; 32]);
                        roots.push(r);
                        publish_idx += 1;
                        continue;
                    }
                }
            }
            let r = dir.publish(to_akd_batch(b)).await;
            if oc == PublishOutcome::Advanced && r.is_err() {
                out.herr = Some(format!("fault-free publish failed: {r:?}"));
                return out;
            }
            if oc == PublishOutcome::Rejected {
                publish_idx += 1;
                continue;
            }
            if cheat.is_none() {
                model.publish(b);
            } else {
                // the model's root hashes are meaningless after a cheat; keep users/versions in step
                model.publish(b);
            }
        }
        publish_idx += 1;
        if oc != PublishOutcome::Advanced {
            continue;
        }
        let eh = match dir.get_epoch_hash().await {
            Ok(e) => e,
            Err(e) => {
                out.herr = Some(format!("get_epoch_hash: {e}"));
                return out;
            }
        };
        if eh.0 as usize == roots.len() {
            roots.push(eh.1);
        }
        // record honest answers for the replay moves
        if cheat.is_none() && rng.chance(1, 2) {
            for l in h.universe.iter().take(3) {
                if let Ok((p, e)) = dir.lookup(AkdLabel(l.clone())).await {
                    rec.lookups.push((e.0, e.1, l.clone(), p));
                }
                if do_c07 {
                    if let Ok((p, e)) = dir.key_history(&AkdLabel(l.clone()), HistoryParams::Complete).await {
                        rec.histories.push((e.0, e.1, l.clone(), p));
                    }
                }
            }
        }
    }
    let cur = roots.len() as u64 - 1;
    if cur == 0 {
        return out;
    }
    let root = roots[cur as usize];

    // ================= C07 second half: the tree failed to retire a version in time =================
    if let Some((victim, sv, e_repl, _)) = &cheat {
        let k = model.users.get(victim).map(|v| v.len()).unwrap_or(0);
        let latest = model.latest(victim).map(|v| v.version).unwrap_or(0);
        for hp in [None, Some(1usize), Some(2), Some(k), Some(k + 3)] {
            // does the requested slice contain version sv+1 (whose update proof needs the stale marker at its own epoch)?
            let slice_len = hp.map(|n| n.min(k)).unwrap_or(k) as u64;
            let spans = latest >= sv + 1 && latest - slice_len < sv + 1;
            out.checks += 1;
            match dir.key_history(&AkdLabel(victim.clone()), to_hp(hp)).await {
                Err(_) => out.p("history_request_for_cheated_label_errors"),
                Ok((p, eh)) => {
                    let p = wire::send_history(&p).unwrap_or(p);
                    let res = akd::client::key_history_verify::<TC>(&pk, eh.1, eh.0, AkdLabel(victim.clone()), p, HistoryVerificationParams::Default { history_params: to_hp(hp) });
                    match (spans, res.is_ok()) {
                        (true, true) => out.v(
                            "c07_unretired_version_not_detected",
                            format!("the stale marker of version {sv} of label {} was {} (replacement published in epoch {e_repl}), yet the honest history answer for {hp:?} verifies", short(victim), if cheat.as_ref().unwrap().3 { "never inserted" } else { "inserted late" }),
                            "publisher_cheat",
                        ),
                        (true, false) => out.p("unretired_version_detected_by_history_verification"),
                        (false, _) => out.p("history_slice_does_not_span_the_cheat"),
                    }
                }
            }
        }
        // other labels are unaffected
        for l in h.universe.iter().filter(|l| *l != victim) {
            if model.latest(l).is_none() {
                continue;
            }
            out.checks += 1;
            if let Ok((p, eh)) = dir.key_history(&AkdLabel(l.clone()), HistoryParams::Complete).await {
                if akd::client::key_history_verify::<TC>(&pk, eh.1, eh.0, AkdLabel(l.clone()), p, HistoryVerificationParams::Default { history_params: HistoryParams::Complete }).is_err() {
                    out.v("c07_other_label_affected_by_cheat", format!("history of label {} no longer verifies", short(l)), "publisher_cheat");
                }
            }
        }
        out.nontrivial.push(fp(&(victim, sv, spec.move_seed)));
        return out;
    }

    // ================= Byzantine server over the honest directory =================
    let view = TreeView::from_snapshot(&store.snapshot());
    let mut forge: Forge<TC> = Forge::new(&view, vrf.clone());
    let labels: Vec<Vec<u8>> = h.universe.iter().filter(|l| model.latest(l).is_some()).cloned().collect();
    if labels.is_empty() {
        return out;
    }
    let mut multi = false;
    for _ in 0..spec.moves {
        let l = rng.pick(&labels).clone();
        let vers = model.users.get(&l).unwrap().clone();
        let latest = vers.last().unwrap().clone();
        let other = rng.pick(&labels).clone();
        if vers.len() >= 2 {
            multi = true;
        }
        if do_c06 {
            match rng.below(8) {
                0 | 1 => {
                    // an older version, with every anchor a server could choose for the freshness proof
                    if vers.len() < 2 {
                        continue;
                    }
                    let old = vers[rng.below(vers.len() as u64 - 1) as usize].clone();
                    let (_, sl) = forge.vrf(&l, false, old.version);
                    let mut cands = forge.nonmembership_candidates(&sl);
                    // plus the honest absence proof of another label's stale marker
                    let (_, osl) = forge.vrf(&other, false, model.latest(&other).unwrap().version);
                    if let Some(nm) = forge.nonmembership(&osl) {
                        cands.push(nm.clone());
                        let mut relabelled = nm;
                        relabelled.label = sl;
                        cands.push(relabelled);
                    }
                    for fr in cands {
                        if let Some(p) = forge.lookup_with(&l, old.version, &old.value, old.epoch, fr) {
                            judge_lookup::<TC>(&mut out, &model, &pk, cur, root, &l, p, "older_version");
                        }
                    }
                }
                2 => {
                    // the latest version with one field altered
                    if let Some(mut p) = forge.lookup(&l, latest.version, &latest.value, latest.epoch) {
                        let which = rng.below(6);
                        match which {
                            0 => p.value = AkdValue(b"forged value".to_vec()),
                            1 => p.epoch = latest.epoch + 1,
                            2 => p.epoch = latest.epoch.saturating_sub(1),
                            3 => flip_byte(&mut p.commitment_nonce, &mut rng),
                            4 => p.version = latest.version + 1,
                            _ => p.version = latest.version.saturating_sub(1).max(1),
                        }
                        let unchanged = p.value.0 == latest.value && p.epoch == latest.epoch && p.version == latest.version && which != 3;
                        if !unchanged {
                            judge_lookup::<TC>(&mut out, &model, &pk, cur, root, &l, p, "field_altered");
                        }
                    }
                }
                3 => {
                    // a version number beyond the current epoch
                    if let Some(mut p) = forge.lookup(&l, latest.version, &latest.value, latest.epoch) {
                        p.version = cur + 1 + rng.below(3);
                        judge_lookup::<TC>(&mut out, &model, &pk, cur, root, &l, p, "version_beyond_epoch");
                    }
                }
                4 | 5 => {
                    // parts swapped with another label's honest answer
                    if other == l {
                        continue;
                    }
                    let ol = model.latest(&other).unwrap().clone();
                    if let (Some(mut p), Some(q)) = (forge.lookup(&l, latest.version, &latest.value, latest.epoch), forge.lookup(&other, ol.version, &ol.value, ol.epoch)) {
                        match rng.below(6) {
                            0 => p.existence_proof = q.existence_proof,
                            1 => p.marker_proof = q.marker_proof,
                            2 => p.freshness_proof = q.freshness_proof,
                            3 => p.existence_vrf_proof = q.existence_vrf_proof,
                            4 => {
                                p.value = q.value;
                                p.commitment_nonce = q.commitment_nonce;
                            }
                            _ => {
                                // the whole answer of the other label, served for this one
                                p = q;
                            }
                        }
                        judge_lookup::<TC>(&mut out, &model, &pk, cur, root, &l, p, "parts_of_another_label");
                    }
                }
                6 => {
                    // replay across epochs, both directions
                    if rec.lookups.is_empty() {
                        continue;
                    }
                    let (e, r, rl, p) = rec.lookups[rng.below(rec.lookups.len() as u64) as usize].clone();
                    if e != cur {
                        judge_lookup::<TC>(&mut out, &model, &pk, cur, root, &rl, p.clone(), "old_answer_against_new_epoch");
                    }
                    if let Some(pn) = forge.lookup(&rl, model.latest(&rl).map(|v| v.version).unwrap_or(1), &model.latest(&rl).map(|v| v.value.clone()).unwrap_or_default(), model.latest(&rl).map(|v| v.epoch).unwrap_or(1)) {
                        if e != cur {
                            judge_lookup::<TC>(&mut out, &model, &pk, e, r, &rl, pn, "new_answer_against_old_epoch");
                        }
                    }
                }
                _ => {
                    // marker proof without a path (the root's value presented as the marker leaf)
                    if let Some(mut p) = forge.lookup(&l, latest.version, &latest.value, latest.epoch) {
                        let (_, ml) = forge.vrf(&l, true, marker_version(latest.version + 1).max(2));
                        p.marker_proof = MembershipProof { label: ml, hash_val: view.root().hash, sibling_proofs: vec![] };
                        p.version = latest.version;
                        judge_lookup::<TC>(&mut out, &model, &pk, cur, root, &l, p, "pathless_marker");
                    }
                }
            }
        }
        if do_c07 {
            let all: Vec<(u64, Vec<u8>, u64)> = vers.iter().rev().map(|v| (v.version, v.value.clone(), v.epoch)).collect();
            let k = all.len();
            let mv = rng.below(15);
            match mv {
                0 | 1 => {
                    // hide the newest j versions; absences that cannot be shown honestly are forged at every anchor
                    if k < 2 {
                        continue;
                    }
                    let j = rng.range(1, k as u64 - 1) as usize;
                    let entries = &all[j..];
                    let end = entries[0].0;
                    let start = entries.last().unwrap().0;
                    let (_, future) = akd_core::utils::get_marker_versions(start, end, cur);
                    let mut ups = vec![];
                    let mut okk = true;
                    for (v, val, e) in entries {
                        match forge.update_proof(&l, *v, val, *e) {
                            Some(u) => ups.push(u),
                            None => okk = false,
                        }
                    }
                    if !okk {
                        continue;
                    }
                    if let Some(mut base) = forge.history(&l, &all, cur) {
                        base.update_proofs = ups;
                        let (past, _) = akd_core::utils::get_marker_versions(start, end, cur);
                        base.past_marker_vrf_proofs.clear();
                        base.existence_of_past_marker_proofs.clear();
                        for v in past {
                            let (pv, pl) = forge.vrf(&l, true, v);
                            if let Some(m) = forge.membership(&pl) {
                                base.past_marker_vrf_proofs.push(pv);
                                base.existence_of_past_marker_proofs.push(m);
                            }
                        }
                        // future markers: honest where absent, every shallow anchor where present
                        let depth_choices = 5;
                        for choice in 0..depth_choices {
                            let mut p = base.clone();
                            p.future_marker_vrf_proofs.clear();
                            p.non_existence_of_future_marker_proofs.clear();
                            for v in &future {
                                let (fv, fl) = forge.vrf(&l, true, *v);
                                p.future_marker_vrf_proofs.push(fv);
                                match forge.nonmembership(&fl) {
                                    Some(nm) => p.non_existence_of_future_marker_proofs.push(nm),
                                    None => {
                                        // the marker leaf exists: every anchor a server could choose, and (last choices) the honest
                                        // absence proof of some OTHER, really absent label - as is, and relabelled to the marker
                                        let mut c = forge.nonmembership_candidates(&fl);
                                        let (_, absent) = forge.vrf(&l, true, cur + 7);
                                        if let Some(foreign) = forge.nonmembership(&absent) {
                                            let mut relabelled = foreign.clone();
                                            relabelled.label = fl;
                                            if choice == depth_choices - 2 {
                                                c = vec![foreign];
                                            } else if choice == depth_choices - 1 {
                                                c = vec![relabelled];
                                            }
                                        }
                                        if c.is_empty() {
                                            continue;
                                        }
                                        p.non_existence_of_future_marker_proofs.push(c[choice.min(c.len() - 1)].clone());
                                    }
                                }
                            }
                            let hp = if start == 1 { None } else { Some(entries.len()) };
                            judge_history::<TC>(&mut out, &model, &pk, cur, root, &l, p, hp, "newest_versions_hidden");
                        }
                        // ... or the absences that cannot be shown are simply left out: both future-marker lists
                        // shortened consistently (only the provable ones kept / a prefix kept / none at all)
                        for variant in 0..3 {
                            let mut p = base.clone();
                            p.future_marker_vrf_proofs.clear();
                            p.non_existence_of_future_marker_proofs.clear();
                            for (fi, v) in future.iter().enumerate() {
                                let (fv, fl) = forge.vrf(&l, true, *v);
                                let keep = match variant {
                                    0 => forge.nonmembership(&fl).is_some(),
                                    1 => fi < future.len() / 2 && forge.nonmembership(&fl).is_some(),
                                    _ => false,
                                };
                                if keep {
                                    p.future_marker_vrf_proofs.push(fv);
                                    p.non_existence_of_future_marker_proofs.push(forge.nonmembership(&fl).unwrap());
                                }
                            }
                            let hp = if start == 1 { None } else { Some(entries.len()) };
                            judge_history::<TC>(&mut out, &model, &pk, cur, root, &l, p, hp, "newest_versions_hidden_markers_omitted");
                        }
                    }
                }
                13 => {
                    // a MostRecent slice whose past-marker lists are shortened consistently (or emptied)
                    if k < 3 {
                        continue;
                    }
                    let n = rng.range(1, k as u64 - 1) as usize;
                    if let Some(mut p) = forge.history(&l, &all[..n], cur) {
                        if p.existence_of_past_marker_proofs.is_empty() {
                            continue;
                        }
                        if rng.chance(1, 2) {
                            p.existence_of_past_marker_proofs.clear();
                            p.past_marker_vrf_proofs.clear();
                        } else {
                            p.existence_of_past_marker_proofs.remove(0);
                            p.past_marker_vrf_proofs.remove(0);
                        }
                        // the list itself is the true MostRecent(n) slice; what must fail is the verification of an answer
                        // that lacks required past-marker proofs
                        out.checks += 1;
                        let r = akd::client::key_history_verify::<TC>(&pk, root, cur, AkdLabel(l.clone()), p, HistoryVerificationParams::Default { history_params: to_hp(Some(n)) });
                        if r.is_ok() {
                            out.v("c07_missing_marker_proofs_accepted", format!("label {}: a MostRecent({n}) answer with past-marker proofs omitted verifies", short(&l)), "past_markers_omitted");
                        } else {
                            out.p("c07_past_markers_omitted_rejected");
                        }
                    }
                }
                2 => {
                    // drop the oldest entries but claim a complete history
                    if k < 2 {
                        continue;
                    }
                    let j = rng.range(1, k as u64 - 1) as usize;
                    if let Some(p) = forge.history(&l, &all[..k - j], cur) {
                        judge_history::<TC>(&mut out, &model, &pk, cur, root, &l, p, None, "oldest_versions_dropped_complete");
                    }
                }
                3 => {
                    // MostRecent(N) answered with fewer or more entries
                    if k < 2 {
                        continue;
                    }
                    let n = rng.range(1, k as u64) as usize;
                    let give = if rng.chance(1, 2) { n.saturating_sub(1).max(1) } else { (n + 1).min(k) };
                    if give == n.min(k) {
                        continue;
                    }
                    if let Some(p) = forge.history(&l, &all[..give], cur) {
                        judge_history::<TC>(&mut out, &model, &pk, cur, root, &l, p, Some(n), "wrong_number_of_entries");
                    }
                }
                4 | 5 => {
                    // gaps, duplicates, reorderings
                    if k < 3 {
                        continue;
                    }
                    if let Some(mut p) = forge.history(&l, &all, cur) {
                        let i = rng.range(1, k as u64 - 1) as usize;
                        match rng.below(3) {
                            0 => {
                                p.update_proofs.remove(i.min(k - 2));
                            }
                            1 => {
                                let d = p.update_proofs[i].clone();
                                p.update_proofs.insert(i, d);
                            }
                            _ => p.update_proofs.swap(i - 1, i),
                        }
                        judge_history::<TC>(&mut out, &model, &pk, cur, root, &l, p, None, "gap_duplicate_or_reorder");
                    }
                }
                6 | 7 => {
                    // values / epochs substituted between entries
                    if let Some(mut p) = forge.history(&l, &all, cur) {
                        let i = rng.below(k as u64) as usize;
                        match rng.below(4) {
                            0 => p.update_proofs[i].value = AkdValue(b"forged".to_vec()),
                            1 => p.update_proofs[i].epoch += 1,
                            2 => {
                                if k >= 2 {
                                    let j = (i + 1) % k;
                                    let (a, b) = (p.update_proofs[i].value.clone(), p.update_proofs[j].value.clone());
                                    if a == b {
                                        continue;
                                    }
                                    p.update_proofs[i].value = b;
                                    p.update_proofs[j].value = a;
                                } else {
                                    continue;
                                }
                            }
                            _ => flip_byte(&mut p.update_proofs[i].commitment_nonce, &mut rng),
                        }
                        judge_history::<TC>(&mut out, &model, &pk, cur, root, &l, p, None, "value_or_epoch_substituted");
                    }
                }
                8 | 9 => {
                    // marker proofs missing, surplus, permuted, or taken from another label
                    if let Some(mut p) = forge.history(&l, &all, cur) {
                        let before = p.clone();
                        match rng.below(5) {
                            0 => {
                                p.non_existence_of_future_marker_proofs.pop();
                                p.future_marker_vrf_proofs.pop();
                            }
                            1 => {
                                p.existence_of_past_marker_proofs.pop();
                                p.past_marker_vrf_proofs.pop();
                            }
                            2 => {
                                if let Some(x) = p.non_existence_of_future_marker_proofs.first().cloned() {
                                    p.non_existence_of_future_marker_proofs.push(x);
                                    let y = p.future_marker_vrf_proofs[0].clone();
                                    p.future_marker_vrf_proofs.push(y);
                                }
                            }
                            3 => {
                                if p.non_existence_of_future_marker_proofs.len() >= 2 {
                                    p.non_existence_of_future_marker_proofs.swap(0, 1);
                                }
                            }
                            _ => {
                                if other != l {
                                    let oall: Vec<(u64, Vec<u8>, u64)> = model.users.get(&other).unwrap().iter().rev().map(|v| (v.version, v.value.clone(), v.epoch)).collect();
                                    if let Some(q) = forge.history(&other, &oall, cur) {
                                        p.non_existence_of_future_marker_proofs = q.non_existence_of_future_marker_proofs;
                                        p.future_marker_vrf_proofs = q.future_marker_vrf_proofs;
                                    }
                                }
                            }
                        }
                        if p != before {
                            judge_history::<TC>(&mut out, &model, &pk, cur, root, &l, p, None, "marker_lists_tampered");
                        }
                    }
                }
                10 => {
                    // a tombstone in place of a true value
                    if let Some(mut p) = forge.history(&l, &all, cur) {
                        let i = rng.below(k as u64) as usize;
                        if p.update_proofs[i].value.0.is_empty() {
                            continue;
                        }
                        p.update_proofs[i].value = AkdValue(vec![]);
                        judge_history::<TC>(&mut out, &model, &pk, cur, root, &l, p, None, "tombstone_substituted");
                    }
                }
                11 => {
                    // the stale-marker part of one update proof taken away or replaced by another entry's
                    if let Some(mut p) = forge.history(&l, &all, cur) {
                        let i = rng.below(k as u64) as usize;
                        if p.update_proofs[i].version <= 1 {
                            continue;
                        }
                        match rng.below(3) {
                            0 => {
                                p.update_proofs[i].previous_version_proof = None;
                                p.update_proofs[i].previous_version_vrf_proof = None;
                            }
                            1 => {
                                let j = (i + 1) % k;
                                if p.update_proofs[j].previous_version_proof.is_none() || j == i {
                                    continue;
                                }
                                p.update_proofs[i].previous_version_proof = p.update_proofs[j].previous_version_proof.clone();
                            }
                            _ => {
                                // the stale marker "proved" by the fresh leaf of the same version
                                p.update_proofs[i].previous_version_proof = Some(p.update_proofs[i].existence_proof.clone());
                            }
                        }
                        // a MostRecent slice that starts exactly at the tampered entry, and the complete history
                        let hp_slice = Some(i + 1);
                        let mut sliced = p.clone();
                        sliced.update_proofs.truncate(i + 1);
                        if let Some(q) = forge.history(&l, &all[..i + 1], cur) {
                            sliced.past_marker_vrf_proofs = q.past_marker_vrf_proofs;
                            sliced.existence_of_past_marker_proofs = q.existence_of_past_marker_proofs;
                            sliced.future_marker_vrf_proofs = q.future_marker_vrf_proofs;
                            sliced.non_existence_of_future_marker_proofs = q.non_existence_of_future_marker_proofs;
                            // the truth for MostRecent(i+1) is that very list, so acceptance is fine ONLY IF every check passed;
                            // what is judged is that the tampered stale-marker part makes it fail
                            out.checks += 1;
                            let r = akd::client::key_history_verify::<TC>(&pk, root, cur, AkdLabel(l.clone()), sliced, HistoryVerificationParams::Default { history_params: to_hp(hp_slice) });
                            if r.is_ok() {
                                out.v("c07_missing_stale_marker_proof_accepted", format!("label {}: a MostRecent({}) answer whose oldest update proof (version {}) has no valid proof that the previous version was retired verifies", short(&l), i + 1, all[i].0), "stale_marker_part_tampered");
                            } else {
                                out.p("c07_stale_marker_part_tampered_slice_rejected");
                            }
                        }
                        out.checks += 1;
                        let r = akd::client::key_history_verify::<TC>(&pk, root, cur, AkdLabel(l.clone()), p, HistoryVerificationParams::Default { history_params: HistoryParams::Complete });
                        if r.is_ok() {
                            out.v("c07_missing_stale_marker_proof_accepted", format!("label {}: a complete history whose update proof of version {} has no valid proof that the previous version was retired verifies", short(&l), all[i].0), "stale_marker_part_tampered");
                        } else {
                            out.p("c07_stale_marker_part_tampered_complete_rejected");
                        }
                    }
                }
                12 => {
                    // two versions claiming the same epoch (the older entry takes the newer one's epoch)
                    if k < 2 {
                        continue;
                    }
                    if let Some(mut p) = forge.history(&l, &all, cur) {
                        let i = rng.range(1, k as u64 - 1) as usize;
                        p.update_proofs[i].epoch = p.update_proofs[i - 1].epoch;
                        judge_history::<TC>(&mut out, &model, &pk, cur, root, &l, p, None, "two_versions_one_epoch");
                    }
                }
                _ => {
                    // replay of an older honest history against the current epoch
                    if rec.histories.is_empty() {
                        continue;
                    }
                    let (e, _, rl, p) = rec.histories[rng.below(rec.histories.len() as u64) as usize].clone();
                    if e != cur {
                        judge_history::<TC>(&mut out, &model, &pk, cur, root, &rl, p, None, "old_answer_against_new_epoch");
                    }
                }
            }
        }
    }
    if multi {
        out.nontrivial.push(fp(&(spec.move_seed, cur, labels.len())));
    }
    out
}

pub struct ByzHist {
    pub id: &'static str,
}

impl Arm for ByzHist {
    fn id(&self) -> &'static str {
        self.id
    }
    fn runs(&self, tier: Tier) -> u64 {
        match tier {
            Tier::Quick => 2500,
            Tier::Thorough => 20_000,
        }
    }
    fn gen(&self, rng: &mut Rng, tier: Tier, _i: u64) -> Value {
        let thorough = tier == Tier::Thorough;
        let prof = GenProfile { max_labels: 6, max_epochs: if thorough { 24 } else { 12 }, max_batch: 4, tombstones: false, restarts: false, clock: false };
        let mut hist = gen_hist_spec(rng, &prof, Checks::default());
        hist.h2_mask = 0;
        hist.cache = CacheSpec::None;
        let cheat = if self.id == "C07" && rng.chance(1, 3) { Some((rng.below(4) as usize, rng.chance(1, 2))) } else { None };
        serde_json::to_value(Spec { hist, move_seed: rng.next_u64(), moves: if thorough { 60 } else { 30 }, publisher_cheat: cheat }).unwrap()
    }
    fn run(&self, spec_v: &Value, chooser: &ChooserSpec, log: bool) -> RunReport {
        let mut rep = RunReport::default();
        let spec: Spec = match serde_json::from_value(spec_v.clone()) {
            Ok(s) => s,
            Err(e) => {
                rep.harness_error = Some(format!("bad spec: {e}"));
                return rep;
            }
        };
        let simcfg = SimCfg { policy: spec.hist.policy, ..SimCfg::default() };
        let sample = json!({"history": crate::histarm::summarize(&spec.hist), "moves": spec.moves, "publisher_cheat": spec.publisher_cheat});
        let (c06, c07) = (self.id == "C06", self.id == "C07");
        let res = match spec.hist.cfg {
            Cfg::WhatsApp => sched::run_sim(simcfg, chooser, log, run_t::<akd::WhatsAppV1Configuration>(spec, c06, c07)),
            Cfg::Experimental => sched::run_sim(simcfg, chooser, log, run_t::<akd::ExperimentalConfiguration<akd::ExampleLabel>>(spec, c06, c07)),
        };
        if let Some(o) = rep.absorb(res) {
            rep.checks = o.checks;
            for (k, c) in o.probes {
                rep.probe_n(&k, c);
            }
            rep.nontrivial = o.nontrivial;
            rep.harness_error = rep.harness_error.take().or(o.herr);
            for v in o.violations {
                rep.violate(v);
            }
        }
        rep.sample = Some(sample);
        rep
    }
    fn shrink(&self, spec: &Value) -> Vec<Value> {
        let mut out = vec![];
        for cand in crate::harness::drop_candidates(&spec["hist"], &["ops"]) {
            let mut s2 = spec.clone();
            s2["hist"] = cand;
            out.push(s2);
        }
        out
    }
    fn rule(&self) -> String {
        if self.id == "C06" {
            "one case = one honest publish history (<= 6 labels, <= 24 epochs) on the real Directory (ground truth: the model) plus a seeded series of lookup answers assembled by a server holding the VRF key and every real node of the final tree: any OLDER version with real existence and marker proofs and, as freshness proof, every ancestor of the (present) stale leaf as claimed longest prefix, or the honest absence proof of another label (also relabelled); the latest version with value / epoch / nonce / version altered; a version number beyond the epoch; any sub-proof, VRF proof or the whole answer swapped with another label's; answers recorded at an earlier epoch replayed against the current pair and vice versa; a marker proof without a path. Every answer crosses the protobuf wire. Oracle: lookup_verify returns Ok only with the model's latest (value, version, epoch) of that label at that epoch. non-trivial = some label has >= 2 versions; distinct = distinct (seed, epoch, labels)".into()
        } else {
            "one case = one honest publish history plus a seeded series of history answers assembled from real update proofs, real marker proofs and real (or anchor-forged) absences: newest versions hidden (absences of the existing future markers forged at every available anchor), oldest versions dropped under Complete, fewer / more entries than MostRecent(N) allows, gaps, duplicates, reorderings, values / epochs / nonces substituted, marker lists shortened / lengthened / permuted / taken from another label, a tombstone in place of a true value, older answers replayed; each judged by the default and the AllowMissingValues verifier with the parameter it claims. Oracle: Ok(list) => list = the model's slice for that parameter (values equal; under AllowMissingValues an empty value may stand in). In a third of the cases the PUBLISHER cheats instead: the stale marker of a superseded version is omitted, or inserted one epoch later; the honest Directory::key_history answer for that label must then fail verification for Complete and for every MostRecent(N) spanning the replacement, while other labels still verify. non-trivial = some label has >= 2 versions (server cases) / the cheat took place; distinct = distinct (seed, epoch, labels)".into()
        }
    }
    fn assumptions(&self) -> Vec<String> {
        vec![
            "the Byzantine server re-arranges real nodes, real VRF proofs and real nonces; it does not break blake3 or ECVRF".into(),
            "no schedule dimension in verification itself".into(),
        ]
    }
}
