#![allow(dead_code)]
mod byz;
mod forge;
mod harness;
mod histarm;
mod model;
mod props;
mod rng;
mod sched;
mod simdb;
mod wire;

use harness::{ReplayFile, Tier};

fn usage() -> ! {
    eprintln!("usage: akd-sim check <ID> <quick|thorough> | replay <file> [--quiet] | list | selftest");
    std::process::exit(2)
}

fn main() {
    let args: Vec<String> = std::env::args().collect();
    if args.len() < 2 {
        usage();
    }
    match args[1].as_str() {
        "list" => {
            for a in props::all_arms() {
                println!("{}", a.id());
            }
        }
        "check" => {
            if args.len() < 4 {
                usage();
            }
            let tier = match args[3].as_str() {
                "quick" => Tier::Quick,
                "thorough" => Tier::Thorough,
                _ => usage(),
            };
            let seed: u64 = std::env::var("VERIF_SEED").ok().and_then(|s| s.parse().ok()).unwrap_or(1);
            let arm = props::arm_for(&args[2]).unwrap_or_else(|| {
                eprintln!("unknown property {}", args[2]);
                std::process::exit(2)
            });
            std::process::exit(harness::check(arm.as_ref(), tier, seed));
        }
        "transcript" => {
            if args.len() < 3 {
                usage();
            }
            std::process::exit(props::c14::transcript_cli(&args[2]));
        }
        "fingerprints" => {
            if args.len() < 5 {
                usage();
            }
            let tier = if args[3] == "thorough" { Tier::Thorough } else { Tier::Quick };
            let seed: u64 = std::env::var("VERIF_SEED").ok().and_then(|s| s.parse().ok()).unwrap_or(1);
            let arm = props::arm_for(&args[2]).unwrap_or_else(|| std::process::exit(2));
            harness::fingerprints(arm.as_ref(), tier, seed, args[4].parse().unwrap_or(100));
        }
        "replay" => {
            if args.len() < 3 {
                usage();
            }
            let quiet = args.iter().any(|a| a == "--quiet");
            let txt = std::fs::read_to_string(&args[2]).unwrap_or_else(|e| {
                eprintln!("cannot read {}: {e}", args[2]);
                std::process::exit(2)
            });
            let rf: ReplayFile = serde_json::from_str(&txt).unwrap_or_else(|e| {
                eprintln!("bad replay file: {e}");
                std::process::exit(2)
            });
            let arm = props::arm_for(&rf.property).unwrap_or_else(|| {
                eprintln!("unknown property {}", rf.property);
                std::process::exit(2)
            });
            std::process::exit(harness::replay(arm.as_ref(), &rf, quiet));
        }
        _ => usage(),
    }
}
