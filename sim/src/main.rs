#![allow(dead_code)]
mod byz;
mod forge;
mod harness;
mod histarm;
mod model;
mod props;
mod rng;
mod sched;
mod simdb;
mod wire;

use harness::{ReplayFile, Tier};

fn usage() -> ! {
    eprintln!("usage: akd-sim check <ID> <quick|thorough> | replay <file> [--quiet] | list | selftest");
    std::process::exit(2)
}

fn main() {
    let args: Vec<String> = std::env::args().collect();
    if args.len() < 2 {
        usage();
    }
    match args[1].as_str() {
        "list" => {
            for a in props::all_arms() {
                println!("{}", a.id());
            }
        }
        "check" => {
            if args.len() < 4 {
                usage();
            }
            let tier = match args[3].as_str() {
                "quick" => Tier::Quick,
                "thorough" => Tier::Thorough,
                _ => usage(),
            };
            let seed: u64 = std::env::var("VERIF_SEED").ok().and_then(|s| s.parse().ok()).unwrap_or(1);
            let arm = props::arm_for(&args[2]).unwrap_or_else(|| {
                eprintln!("unknown property {}", args[2]);
                std::process::exit(2)
            });
            std::process::exit(harness::check(arm.as_ref(), tier, seed));
        }
        "selftest" => {
            std::process::exit(selftest());
        }
        "transcript" => {
            if args.len() < 3 {
                usage();
            }
            std::process::exit(props::c14::transcript_cli(&args[2]));
        }
        "fingerprints" => {
            if args.len() < 5 {
                usage();
            }
            let tier = if args[3] == "thorough" { Tier::Thorough } else { Tier::Quick };
            let seed: u64 = std::env::var("VERIF_SEED").ok().and_then(|s| s.parse().ok()).unwrap_or(1);
            let arm = props::arm_for(&args[2]).unwrap_or_else(|| std::process::exit(2));
            harness::fingerprints(arm.as_ref(), tier, seed, args[4].parse().unwrap_or(100));
        }
        "replay" => {
            if args.len() < 3 {
                usage();
            }
            let quiet = args.iter().any(|a| a == "--quiet");
            let txt = std::fs::read_to_string(&args[2]).unwrap_or_else(|e| {
                eprintln!("cannot read {}: {e}", args[2]);
                std::process::exit(2)
            });
            let rf: ReplayFile = serde_json::from_str(&txt).unwrap_or_else(|e| {
                eprintln!("bad replay file: {e}");
                std::process::exit(2)
            });
            let arm = props::arm_for(&rf.property).unwrap_or_else(|| {
                eprintln!("unknown property {}", rf.property);
                std::process::exit(2)
            });
            std::process::exit(harness::replay(arm.as_ref(), &rf, quiet));
        }
        _ => usage(),
    }
}

/// The stub must be a conforming `Database`, and the model must agree with the library on the things both
/// can compute without any history, before anything the simulator reports is believed.
fn selftest() -> i32 {
    use akd::storage::Database;
    let rt = tokio::runtime::Builder::new_current_thread().enable_time().build().unwrap();
    // 1. akd's own storage-layer test-suite, run against SimDb (no scheduler installed: the gate is open)
    let store = simdb::SimStore::new();
    let db = store.handle(0);
    let r = std::panic::catch_unwind(std::panic::AssertUnwindSafe(|| {
        rt.block_on(async {
            let _mgr = akd::storage::tests::run_test_cases_for_storage_impl(db.clone()).await;
            // and the same calls must have kept the shadow map and memory.rs in agreement
            let _ = db.get::<akd::Azks>(&akd::append_only_zks::DEFAULT_AZKS_KEY).await;
        })
    }));
    if r.is_err() {
        println!("SELFTEST FAILED: SimDb does not pass akd's storage test-suite");
        return 2;
    }
    let mm = store.take_mismatches();
    if !mm.is_empty() {
        println!("SELFTEST FAILED: memory.rs and the shadow map disagree: {}", mm[0]);
        return 2;
    }
    // 2. the model's empty-tree hash and a three-epoch history equal the library's, for both configurations
    for cfg in [model::Cfg::WhatsApp, model::Cfg::Experimental] {
        let ok = rt.block_on(async {
            async fn go<TC: model::ModelCfg>() -> bool {
                let store = simdb::SimStore::new();
                let mgr = akd::storage::StorageManager::new_no_cache(store.handle(0));
                let dir = akd::Directory::<TC, _, _>::new(mgr, model::SimVrf::default(), akd::AzksParallelismConfig::disabled()).await.unwrap();
                let mut m = model::Model::new(TC::CFG);
                let e0 = dir.get_epoch_hash().await.unwrap();
                if (e0.0, e0.1) != m.current() {
                    return false;
                }
                for (i, b) in [vec![("a", "1"), ("b", "2")], vec![("a", "3")], vec![("c", ""), ("b", "2")]].iter().enumerate() {
                    let batch: Vec<(Vec<u8>, Vec<u8>)> = b.iter().map(|(l, v)| (l.as_bytes().to_vec(), v.as_bytes().to_vec())).collect();
                    let eh = dir.publish(model::to_akd_batch(&batch)).await.unwrap();
                    let (_, e, h) = m.publish(&batch);
                    if (eh.0, eh.1) != (e, h) {
                        println!("model and library disagree after publish {i}");
                        return false;
                    }
                }
                true
            }
            match cfg {
                model::Cfg::WhatsApp => go::<akd::WhatsAppV1Configuration>().await,
                model::Cfg::Experimental => go::<akd::ExperimentalConfiguration<akd::ExampleLabel>>().await,
            }
        });
        if !ok {
            println!("SELFTEST FAILED: reference model vs library on a fixed three-epoch history ({cfg:?})");
            return 2;
        }
    }
    println!("selftest ok: SimDb passes akd's storage test-suite; model agrees with the library on the fixed history (both configurations)");
    0
}
