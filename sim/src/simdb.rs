//! SimDb: the only door to durable state. A record-atomic key-value store whose every call
//! is a scheduling point and a fault point. Durable state lives in akd's own
//! `AsyncInMemoryDatabase` (real code) with a sorted shadow map kept in lock-step, used for
//! snapshots, digests, and to cross-check the answers of `memory.rs`.

use crate::sched::{self, gate, OpDesc, Site, Verdict};
use akd::errors::StorageError;
use akd::storage::memory::AsyncInMemoryDatabase;
use akd::storage::types::{DbRecord, KeyData, ValueState, ValueStateRetrievalFlag};
use akd::storage::{Database, DbSetState, Storable};
use akd::{AkdLabel, AkdValue};
use async_trait::async_trait;
use std::collections::{BTreeMap, HashMap};
use std::sync::{Arc, Mutex};

#[derive(Clone, Copy, Debug, PartialEq, Eq)]
pub enum CommitMode {
    /// the whole commit batch is applied in one scheduling step
    Atomic,
    /// every record of the commit batch is its own scheduling step; order is a seeded
    /// permutation with the epoch record last
    PerRecord,
}

#[derive(Clone, Debug)]
pub struct CommitCapture {
    pub handle: u16,
    /// shadow of the store just before the first record of this commit was applied
    pub before: BTreeMap<Vec<u8>, DbRecord>,
    /// the records handed to the database, canonical order (sorted by key, epoch record last)
    pub records: Vec<DbRecord>,
    /// as handed over by akd (position of the Azks record, for the C15 "epoch record last" oracle)
    pub azks_was_last: bool,
    pub had_azks: bool,
}

pub struct StoreInner {
    pub mem: AsyncInMemoryDatabase,
    pub shadow: BTreeMap<Vec<u8>, DbRecord>,
    pub writes: u64,
    pub capture_commits: bool,
    pub commits: Vec<CommitCapture>,
    /// disagreements between memory.rs and the shadow's answer (C15 finding against memory.rs)
    pub mismatches: Vec<String>,
    /// every general (non-commit) write batch, for conservation oracles
    pub general_batches: u64,
    /// per handle: epoch of the epoch record most recently read from the database
    pub last_azks_read: HashMap<u16, u64>,
    /// when enabled: every record applied to the store, in apply order
    pub log_applies: bool,
    pub apply_log: Vec<DbRecord>,
}

#[derive(Clone)]
pub struct SimStore {
    pub inner: Arc<Mutex<StoreInner>>,
}

impl Default for SimStore {
    fn default() -> Self {
        Self::new()
    }
}

pub fn is_azks(r: &DbRecord) -> bool {
    matches!(r, DbRecord::Azks(_))
}

impl SimStore {
    pub fn new() -> Self {
        SimStore {
            inner: Arc::new(Mutex::new(StoreInner {
                mem: AsyncInMemoryDatabase::new(),
                shadow: BTreeMap::new(),
                writes: 0,
                capture_commits: false,
                commits: vec![],
                mismatches: vec![],
                general_batches: 0,
                last_azks_read: HashMap::new(),
                log_applies: false,
                apply_log: vec![],
            })),
        }
    }

    /// a new, independent store holding exactly these records
    pub async fn from_records(records: &BTreeMap<Vec<u8>, DbRecord>) -> Self {
        let s = SimStore::new();
        let mem = s.inner.lock().unwrap().mem.clone();
        let recs: Vec<DbRecord> = records.values().cloned().collect();
        mem.batch_set(recs, DbSetState::General).await.unwrap();
        s.inner.lock().unwrap().shadow = records.clone();
        s
    }

    pub fn snapshot(&self) -> BTreeMap<Vec<u8>, DbRecord> {
        self.inner.lock().unwrap().shadow.clone()
    }

    pub fn digest(&self) -> u64 {
        let g = self.inner.lock().unwrap();
        crate::rng::fp(&g.shadow)
    }

    pub fn set_capture(&self, on: bool) {
        self.inner.lock().unwrap().capture_commits = on;
    }

    pub fn take_commits(&self) -> Vec<CommitCapture> {
        std::mem::take(&mut self.inner.lock().unwrap().commits)
    }

    pub fn take_mismatches(&self) -> Vec<String> {
        std::mem::take(&mut self.inner.lock().unwrap().mismatches)
    }

    pub fn set_log_applies(&self, on: bool) {
        self.inner.lock().unwrap().log_applies = on;
    }

    pub fn applied_for_key(&self, key: &[u8]) -> Vec<DbRecord> {
        self.inner.lock().unwrap().apply_log.iter().filter(|r| r.get_full_binary_id() == key).cloned().collect()
    }

    pub fn last_azks_read(&self, handle: u16) -> Option<u64> {
        self.inner.lock().unwrap().last_azks_read.get(&handle).copied()
    }

    pub fn current_epoch(&self) -> Option<u64> {
        let g = self.inner.lock().unwrap();
        g.shadow.values().find_map(|r| match r {
            DbRecord::Azks(a) => Some(a.latest_epoch),
            _ => None,
        })
    }

    pub fn handle(&self, id: u16) -> SimDb {
        SimDb { store: self.clone(), handle: id, commit_mode: CommitMode::Atomic }
    }

    async fn apply(&self, records: Vec<DbRecord>) {
        let mem = {
            let mut g = self.inner.lock().unwrap();
            for r in &records {
                g.shadow.insert(r.get_full_binary_id(), r.clone());
                g.writes += 1;
                if g.log_applies {
                    g.apply_log.push(r.clone());
                }
            }
            g.mem.clone()
        };
        mem.batch_set(records, DbSetState::General).await.expect("in-memory write");
    }
}

/// One process's connection to the store.
#[derive(Clone)]
pub struct SimDb {
    pub store: SimStore,
    pub handle: u16,
    pub commit_mode: CommitMode,
}

impl SimDb {
    pub fn with_commit_mode(mut self, m: CommitMode) -> Self {
        self.commit_mode = m;
        self
    }
    fn mem(&self) -> AsyncInMemoryDatabase {
        self.store.inner.lock().unwrap().mem.clone()
    }
    fn fail(site: &str) -> StorageError {
        StorageError::Connection(format!("simulated storage failure at {site}"))
    }
    fn note_mismatch(&self, what: String) {
        self.store.inner.lock().unwrap().mismatches.push(what);
    }
}

fn sort_for_commit(mut records: Vec<DbRecord>) -> Vec<DbRecord> {
    records.sort_by(|a, b| {
        (is_azks(a), a.get_full_binary_id()).cmp(&(is_azks(b), b.get_full_binary_id()))
    });
    records
}

/// the documented meaning of each retrieval flag, computed on the shadow
pub fn shadow_user_states(shadow: &BTreeMap<Vec<u8>, DbRecord>, user: &AkdLabel) -> Vec<ValueState> {
    let mut v: Vec<ValueState> = shadow
        .values()
        .filter_map(|r| match r {
            DbRecord::ValueState(vs) if &vs.username == user => Some(vs.clone()),
            _ => None,
        })
        .collect();
    v.sort_by_key(|s| s.epoch);
    v
}

pub fn select_by_flag(states: &[ValueState], flag: ValueStateRetrievalFlag) -> Option<ValueState> {
    match flag {
        ValueStateRetrievalFlag::MaxEpoch => states.iter().max_by_key(|s| s.epoch).cloned(),
        ValueStateRetrievalFlag::MinEpoch => states.iter().min_by_key(|s| s.epoch).cloned(),
        ValueStateRetrievalFlag::LeqEpoch(e) => states.iter().filter(|s| s.epoch <= e).max_by_key(|s| s.epoch).cloned(),
        ValueStateRetrievalFlag::SpecificEpoch(e) => states.iter().find(|s| s.epoch == e).cloned(),
        ValueStateRetrievalFlag::SpecificVersion(v) => states.iter().find(|s| s.version == v).cloned(),
    }
}

#[async_trait]
impl Database for SimDb {
    async fn set(&self, record: DbRecord) -> Result<(), StorageError> {
        let key = record.get_full_binary_id();
        match gate(OpDesc { handle: self.handle, site: Site::DbSet, key }).await {
            Verdict::Grant => {
                self.store.apply(vec![record]).await;
                Ok(())
            }
            _ => Err(Self::fail("set")),
        }
    }

    async fn batch_set(&self, records: Vec<DbRecord>, state: DbSetState) -> Result<(), StorageError> {
        let is_commit = matches!(state, DbSetState::TransactionCommit);
        let had_azks = records.iter().any(is_azks);
        let azks_was_last = records.last().map(is_azks).unwrap_or(false);
        let records = sort_for_commit(records);
        let mut key = Vec::new();
        for r in &records {
            key.extend_from_slice(&crate::rng::fp_bytes(&r.get_full_binary_id()).to_le_bytes());
        }
        let site = if is_commit { Site::DbCommit } else { Site::DbBatchSet };
        match gate(OpDesc { handle: self.handle, site, key }).await {
            Verdict::Grant => {}
            _ => return Err(Self::fail("batch_set")),
        }
        if !is_commit {
            self.store.inner.lock().unwrap().general_batches += 1;
            self.store.apply(records).await;
            return Ok(());
        }
        {
            let mut g = self.store.inner.lock().unwrap();
            if g.capture_commits {
                let before = g.shadow.clone();
                g.commits.push(CommitCapture {
                    handle: self.handle,
                    before,
                    records: records.clone(),
                    azks_was_last,
                    had_azks,
                });
            }
        }
        match self.commit_mode {
            CommitMode::Atomic => {
                self.store.apply(records).await;
            }
            CommitMode::PerRecord => {
                // seeded permutation of the non-epoch records, epoch record(s) last
                let (mut others, azks): (Vec<_>, Vec<_>) = records.into_iter().partition(|r| !is_azks(r));
                for i in (1..others.len()).rev() {
                    let j = sched::choose(i as u32 + 1) as usize;
                    others.swap(i, j);
                }
                for r in others.into_iter().chain(azks.into_iter()) {
                    let key = r.get_full_binary_id();
                    // a per-record step cannot fail: the commit failing as a whole is decided above
                    let _ = gate(OpDesc { handle: self.handle, site: Site::DbCommitRecord, key }).await;
                    self.store.apply(vec![r]).await;
                }
            }
        }
        Ok(())
    }

    async fn get<St: Storable>(&self, id: &St::StorageKey) -> Result<DbRecord, StorageError> {
        let key = St::get_full_binary_key_id(id);
        match gate(OpDesc { handle: self.handle, site: Site::DbGet, key: key.clone() }).await {
            Verdict::Grant => {
                let got = self.mem().get::<St>(id).await;
                let want = self.store.inner.lock().unwrap().shadow.get(&key).cloned();
                match (&got, &want) {
                    (Ok(a), Some(b)) if a == b => {}
                    (Err(StorageError::NotFound(_)), None) => {}
                    _ => self.note_mismatch(format!("get {}: memory.rs={got:?} shadow={want:?}", hex::encode(&key))),
                }
                if let Ok(DbRecord::Azks(a)) = &got {
                    self.store.inner.lock().unwrap().last_azks_read.insert(self.handle, a.latest_epoch);
                }
                got
            }
            _ => Err(Self::fail("get")),
        }
    }

    async fn batch_get<St: Storable>(&self, ids: &[St::StorageKey]) -> Result<Vec<DbRecord>, StorageError> {
        let mut keyed: Vec<(Vec<u8>, St::StorageKey)> =
            ids.iter().map(|id| (St::get_full_binary_key_id(id), id.clone())).collect();
        keyed.sort_by(|a, b| a.0.cmp(&b.0));
        keyed.dedup_by(|a, b| a.0 == b.0);
        let mut key = Vec::new();
        for (k, _) in &keyed {
            key.extend_from_slice(&crate::rng::fp_bytes(k).to_le_bytes());
        }
        match gate(OpDesc { handle: self.handle, site: Site::DbBatchGet, key }).await {
            Verdict::Grant => {
                let sorted_ids: Vec<St::StorageKey> = keyed.iter().map(|(_, id)| id.clone()).collect();
                let got = self.mem().batch_get::<St>(&sorted_ids).await;
                let want: Vec<DbRecord> = {
                    let g = self.store.inner.lock().unwrap();
                    keyed.iter().filter_map(|(k, _)| g.shadow.get(k).cloned()).collect()
                };
                match &got {
                    Ok(v) if *v == want => {}
                    other => self.note_mismatch(format!("batch_get: memory.rs={other:?} shadow={want:?}")),
                }
                got
            }
            _ => Err(Self::fail("batch_get")),
        }
    }

    async fn get_user_data(&self, username: &AkdLabel) -> Result<KeyData, StorageError> {
        match gate(OpDesc { handle: self.handle, site: Site::DbUserData, key: username.0.clone() }).await {
            Verdict::Grant => {
                let got = self.mem().get_user_data(username).await;
                let want = shadow_user_states(&self.store.inner.lock().unwrap().shadow, username);
                match &got {
                    Ok(kd) => {
                        let mut a = kd.states.clone();
                        a.sort_by_key(|s| s.epoch);
                        if a != want {
                            self.note_mismatch(format!("get_user_data {username:?}: memory.rs={a:?} shadow={want:?}"));
                        }
                    }
                    Err(StorageError::NotFound(_)) if want.is_empty() => {}
                    other => self.note_mismatch(format!("get_user_data {username:?}: memory.rs={other:?} shadow={want:?}")),
                }
                got
            }
            _ => Err(Self::fail("get_user_data")),
        }
    }

    async fn get_user_state(
        &self,
        username: &AkdLabel,
        flag: ValueStateRetrievalFlag,
    ) -> Result<ValueState, StorageError> {
        let mut key = username.0.clone();
        key.extend_from_slice(format!("{flag:?}").as_bytes());
        match gate(OpDesc { handle: self.handle, site: Site::DbUserState, key }).await {
            Verdict::Grant => {
                let got = self.mem().get_user_state(username, flag).await;
                let states = shadow_user_states(&self.store.inner.lock().unwrap().shadow, username);
                let want = select_by_flag(&states, flag);
                match (&got, &want) {
                    (Ok(a), Some(b)) if a == b => {}
                    (Err(StorageError::NotFound(_)), None) => {}
                    _ => self.note_mismatch(format!(
                        "get_user_state {username:?} {flag:?}: memory.rs={got:?} shadow={want:?}"
                    )),
                }
                got
            }
            _ => Err(Self::fail("get_user_state")),
        }
    }

    async fn get_user_state_versions(
        &self,
        usernames: &[AkdLabel],
        flag: ValueStateRetrievalFlag,
    ) -> Result<HashMap<AkdLabel, (u64, AkdValue)>, StorageError> {
        let mut names: Vec<AkdLabel> = usernames.to_vec();
        names.sort();
        names.dedup();
        let mut key = format!("{flag:?}").into_bytes();
        for n in &names {
            key.extend_from_slice(&crate::rng::fp_bytes(&n.0).to_le_bytes());
        }
        match gate(OpDesc { handle: self.handle, site: Site::DbUserVersions, key }).await {
            Verdict::Grant => {
                let got = self.mem().get_user_state_versions(&names, flag).await;
                let mut want: HashMap<AkdLabel, (u64, AkdValue)> = HashMap::new();
                {
                    let g = self.store.inner.lock().unwrap();
                    for n in &names {
                        if let Some(s) = select_by_flag(&shadow_user_states(&g.shadow, n), flag) {
                            want.insert(n.clone(), (s.version, s.value));
                        }
                    }
                }
                match &got {
                    Ok(m) if *m == want => {}
                    other => self.note_mismatch(format!("get_user_state_versions {flag:?}: memory.rs={other:?} shadow={want:?}")),
                }
                got
            }
            _ => Err(Self::fail("get_user_state_versions")),
        }
    }
}
