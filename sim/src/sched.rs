//! The gate and the scheduler.
//!
//! Every `SimDb` call and every H2 `sim_point` parks its task at the gate; the scheduler
//! (the `block_on` future of a paused-clock current_thread runtime) waits until tokio
//! itself is idle, then releases exactly one parked operation, chosen by the `Chooser`.

use crate::rng::{Chooser, ChooserSpec};
use serde::{Deserialize, Serialize};
use std::cell::RefCell;
use std::collections::{BTreeMap, HashMap};
use std::future::Future;
use std::hash::{Hash, Hasher};
use std::time::Duration;
use tokio::sync::oneshot;

#[derive(Clone, Copy, Debug, PartialEq, Eq, Hash, PartialOrd, Ord, Serialize, Deserialize)]
pub enum Site {
    DbGet,
    DbBatchGet,
    DbSet,
    DbBatchSet,
    DbCommit,
    DbCommitRecord,
    DbUserData,
    DbUserState,
    DbUserVersions,
    /// H2 scheduling point inside StorageManager (site name index)
    Mgr(u8),
    /// harness-level yield (actors)
    Yield,
}

impl Site {
    pub fn is_db(&self) -> bool {
        !matches!(self, Site::Mgr(_) | Site::Yield)
    }
    pub fn is_read(&self) -> bool {
        matches!(
            self,
            Site::DbGet | Site::DbBatchGet | Site::DbUserData | Site::DbUserState | Site::DbUserVersions
        )
    }
    pub fn is_write(&self) -> bool {
        matches!(self, Site::DbSet | Site::DbBatchSet | Site::DbCommit | Site::DbCommitRecord)
    }
    pub fn name(&self) -> String {
        match self {
            Site::Mgr(i) => format!("mgr:{}", MGR_SITES.get(*i as usize).copied().unwrap_or("?")),
            other => format!("{other:?}"),
        }
    }
}

pub const MGR_SITES: [&str; 11] = [
    "get",
    "batch_get",
    "set",
    "batch_set",
    "get_user_state",
    "get_user_data",
    "get_user_state_versions",
    "commit_transaction",
    "flush_cache",
    "tombstone_value_states",
    "fill",
];

#[derive(Clone, Debug)]
pub struct OpDesc {
    pub handle: u16,
    pub site: Site,
    /// canonical key bytes (sorted for batch operations)
    pub key: Vec<u8>,
}

#[derive(Clone, Copy, Debug, PartialEq, Eq)]
pub enum Verdict {
    Grant,
    /// the operation must return a storage error without touching the store
    Fail,
    /// the run is over
    Abort,
}

#[derive(Clone, Copy, Debug, PartialEq, Eq, Serialize, Deserialize)]
pub enum Policy {
    Uniform,
    /// stay with the task served last with this probability (percent)
    Sticky(u8),
    /// oldest pending first, inversion with the given probability (percent)
    Fifo(u8),
    /// newest pending first, inversion with the given probability (percent)
    Lifo(u8),
}

/// Storage faults the scheduler may inject when it releases an operation.
#[derive(Clone, Debug, Default, Serialize, Deserialize)]
pub struct FaultPlan {
    /// fail the k-th database operation (0-based, counted per handle)
    pub fail_at: Vec<(u16, u64)>,
    /// per handle: probability (permille) that a database read fails
    pub read_fail_permille: Vec<(u16, u32)>,
    /// per handle: probability (permille) that a database write is rejected as a whole
    pub write_fail_permille: Vec<(u16, u32)>,
    /// no random fault is injected after this many scheduling steps (faults stop; liveness is judged after)
    pub faults_until_step: Option<u64>,
    /// probability (permille) per step of a clock jump; the jump is drawn from `jump_ms`
    pub clock_jump_permille: u32,
    pub jump_ms: Vec<u64>,
}

#[derive(Clone, Debug, Serialize, Deserialize)]
pub struct SimCfg {
    pub policy: Policy,
    /// which H2 sites are scheduling points in this run (bit i = MGR_SITES[i]); 0 = none
    pub h2_mask: u16,
    pub faults: FaultPlan,
    pub max_steps: u64,
}

impl Default for SimCfg {
    fn default() -> Self {
        SimCfg { policy: Policy::Fifo(0), h2_mask: 0, faults: FaultPlan::default(), max_steps: 2_000_000 }
    }
}

#[derive(Clone, Debug, Default, Serialize)]
pub struct RunStats {
    pub steps: u64,
    /// steps at which at least two operations were pending (a real scheduling choice)
    pub choice_steps: u64,
    pub max_pending: usize,
    pub grants: BTreeMap<String, u64>,
    pub faults: BTreeMap<String, u64>,
    pub virtual_ms: u64,
    /// hash of the sequence of (task, site, key) released, in order
    pub interleaving: u64,
    pub tasks_seen: u32,
    pub idle_ticks: u64,
}

struct Pending {
    seq: u64,
    enq_step: u64,
    desc: OpDesc,
    task: u32,
    tx: oneshot::Sender<Verdict>,
}

struct Ctx {
    pending: Vec<Pending>,
    next_seq: u64,
    chooser: Chooser,
    cfg: SimCfg,
    last_task: Option<u32>,
    task_ids: HashMap<tokio::task::Id, u32>,
    db_op_count: HashMap<u16, u64>,
    /// site of every database operation released, per handle, in order (bounded)
    db_op_sites: HashMap<u16, Vec<Site>>,
    stats: RunStats,
    hasher: std::hash::SipHasher,
    /// when true, operations pass the gate without parking (oracle reads, set-up)
    ungated: bool,
    /// textual event log for replay output (bounded)
    log: Vec<String>,
    log_on: bool,
    probes: BTreeMap<&'static str, u64>,
    /// set by SimDb when a handle is told to crash mid-commit etc.; free-form flags for arms
    pub flags: HashMap<&'static str, u64>,
}

thread_local! {
    static CTX: RefCell<Option<Ctx>> = const { RefCell::new(None) };
}

fn task_index(ctx: &mut Ctx) -> u32 {
    match tokio::task::try_id() {
        Some(id) => {
            let n = ctx.task_ids.len() as u32;
            *ctx.task_ids.entry(id).or_insert(n)
        }
        None => u32::MAX,
    }
}

/// Park at the gate until the scheduler releases this operation.
pub async fn gate(desc: OpDesc) -> Verdict {
    let rx = CTX.with(|c| {
        let mut c = c.borrow_mut();
        match c.as_mut() {
            None => None,
            Some(ctx) if ctx.ungated => None,
            Some(ctx) => {
                let (tx, rx) = oneshot::channel();
                let task = task_index(ctx);
                let seq = ctx.next_seq;
                ctx.next_seq += 1;
                let enq_step = ctx.stats.steps;
                ctx.pending.push(Pending { seq, enq_step, desc, task, tx });
                Some(rx)
            }
        }
    });
    match rx {
        None => Verdict::Grant,
        Some(rx) => rx.await.unwrap_or(Verdict::Abort),
    }
}

/// harness-level cooperative yield for actors
pub async fn yield_point() {
    let _ = gate(OpDesc { handle: u16::MAX, site: Site::Yield, key: vec![] }).await;
}

pub fn probe(name: &'static str) {
    CTX.with(|c| {
        if let Some(ctx) = c.borrow_mut().as_mut() {
            *ctx.probes.entry(name).or_insert(0) += 1;
        }
    });
}

pub fn count_fault(name: &str) {
    CTX.with(|c| {
        if let Some(ctx) = c.borrow_mut().as_mut() {
            *ctx.stats.faults.entry(name.to_string()).or_insert(0) += 1;
        }
    });
}

pub fn log_event(s: impl FnOnce() -> String) {
    CTX.with(|c| {
        if let Some(ctx) = c.borrow_mut().as_mut() {
            if ctx.log_on && ctx.log.len() < 20_000 {
                let step = ctx.stats.steps;
                ctx.log.push(format!("[{step}] {}", s()));
            }
        }
    });
}

/// draw a run-time decision from the run's chooser (recorded in the trace)
pub fn choose(bound: u32) -> u32 {
    CTX.with(|c| match c.borrow_mut().as_mut() {
        Some(ctx) => ctx.chooser.choose(bound),
        None => 0,
    })
}

pub fn current_step() -> u64 {
    CTX.with(|c| c.borrow().as_ref().map(|c| c.stats.steps).unwrap_or(0))
}

pub fn set_ungated(on: bool) -> bool {
    CTX.with(|c| match c.borrow_mut().as_mut() {
        Some(ctx) => std::mem::replace(&mut ctx.ungated, on),
        None => true,
    })
}

/// Run `f` with the gate open (no scheduling points, no faults): for oracle reads and set-up
pub async fn ungated<T>(f: impl Future<Output = T>) -> T {
    let prev = set_ungated(true);
    let out = f.await;
    set_ungated(prev);
    out
}

pub fn set_fault_plan(f: impl FnOnce(&mut FaultPlan)) {
    CTX.with(|c| {
        if let Some(ctx) = c.borrow_mut().as_mut() {
            f(&mut ctx.cfg.faults)
        }
    });
}

pub fn db_ops_so_far(handle: u16) -> u64 {
    CTX.with(|c| c.borrow().as_ref().and_then(|c| c.db_op_count.get(&handle).copied()).unwrap_or(0))
}

pub fn db_op_sites(handle: u16) -> Vec<Site> {
    CTX.with(|c| c.borrow().as_ref().and_then(|c| c.db_op_sites.get(&handle).cloned()).unwrap_or_default())
}

pub fn pending_count() -> usize {
    CTX.with(|c| c.borrow().as_ref().map(|c| c.pending.len()).unwrap_or(0))
}

pub fn reset_db_op_count(handle: u16) {
    CTX.with(|c| {
        if let Some(ctx) = c.borrow_mut().as_mut() {
            ctx.db_op_count.insert(handle, 0);
        }
    });
}

fn h2_callback(site: &'static str) -> std::pin::Pin<Box<dyn Future<Output = ()> + Send>> {
    Box::pin(async move {
        let idx = MGR_SITES.iter().position(|s| *s == site).unwrap_or(0) as u8;
        let enabled = CTX.with(|c| c.borrow().as_ref().map(|c| c.cfg.h2_mask & (1 << idx) != 0).unwrap_or(false));
        if enabled {
            let _ = gate(OpDesc { handle: u16::MAX, site: Site::Mgr(idx), key: vec![] }).await;
        }
    })
}

#[derive(Debug, Clone, Serialize)]
pub enum EndState {
    Finished,
    /// nothing pending, nothing runnable, root not finished
    Deadlock,
    StepLimit,
    RootPanicked(String),
}

pub struct SimResult<T> {
    pub value: Option<T>,
    pub end: EndState,
    pub stats: RunStats,
    pub trace: Vec<u32>,
    pub log: Vec<String>,
    pub probes: BTreeMap<&'static str, u64>,
}

thread_local! {
    static LAST_PANIC: RefCell<Option<String>> = const { RefCell::new(None) };
}

pub fn install_quiet_panic_hook() {
    std::panic::set_hook(Box::new(|info| {
        let msg = format!("{info}");
        LAST_PANIC.with(|p| *p.borrow_mut() = Some(msg));
    }));
}

pub fn take_last_panic() -> Option<String> {
    LAST_PANIC.with(|p| p.borrow_mut().take())
}

/// Run one simulated execution. `root` is the root actor; it may spawn further tokio tasks.
pub fn run_sim<T, F>(cfg: SimCfg, chooser_spec: &ChooserSpec, log_on: bool, root: F) -> SimResult<T>
where
    F: Future<Output = T> + Send + 'static,
    T: Send + 'static,
{
    let rt = tokio::runtime::Builder::new_current_thread()
        .enable_time()
        .start_paused(true)
        .build()
        .expect("runtime");
    #[allow(deprecated)]
    let ctx = Ctx {
        pending: Vec::new(),
        next_seq: 0,
        chooser: Chooser::new(chooser_spec),
        cfg,
        last_task: None,
        task_ids: HashMap::new(),
        db_op_count: HashMap::new(),
        db_op_sites: HashMap::new(),
        stats: RunStats::default(),
        hasher: std::hash::SipHasher::new(),
        ungated: false,
        log: Vec::new(),
        log_on,
        probes: BTreeMap::new(),
        flags: HashMap::new(),
    };
    CTX.with(|c| *c.borrow_mut() = Some(ctx));
    akd::verif_hooks::install_sim_point(Some(h2_callback));

    let (value, end) = rt.block_on(async move {
        let start = tokio::time::Instant::now();
        let mut handle = tokio::spawn(root);
        let mut idle_streak: u32 = 0;
        let end;
        let mut value = None;
        loop {
            tokio::time::sleep(Duration::from_millis(1)).await;
            if handle.is_finished() {
                match (&mut handle).await {
                    Ok(v) => {
                        value = Some(v);
                        end = EndState::Finished;
                    }
                    Err(e) => {
                        let msg = take_last_panic().unwrap_or_else(|| e.to_string());
                        end = EndState::RootPanicked(msg);
                    }
                }
                break;
            }
            enum Act {
                Idle,
                Limit,
                Jump(u64),
                Release(Pending, Verdict),
            }
            let act = CTX.with(|c| {
                let mut c = c.borrow_mut();
                let ctx = c.as_mut().unwrap();
                let n = ctx.pending.len();
                if n == 0 {
                    return Act::Idle;
                }
                if ctx.stats.steps >= ctx.cfg.max_steps {
                    return Act::Limit;
                }
                ctx.stats.steps += 1;
                if n >= 2 {
                    ctx.stats.choice_steps += 1;
                }
                ctx.stats.max_pending = ctx.stats.max_pending.max(n);
                let faults_on = ctx.cfg.faults.faults_until_step.map(|s| ctx.stats.steps <= s).unwrap_or(true);
                // clock jump?
                if faults_on && ctx.cfg.faults.clock_jump_permille > 0 && !ctx.cfg.faults.jump_ms.is_empty() {
                    let p = ctx.cfg.faults.clock_jump_permille;
                    if ctx.chooser.chance(p) {
                        let k = ctx.chooser.choose(ctx.cfg.faults.jump_ms.len() as u32) as usize;
                        let d = ctx.cfg.faults.jump_ms[k];
                        *ctx.stats.faults.entry("clock_jump".into()).or_insert(0) += 1;
                        return Act::Jump(d);
                    }
                }
                // pick
                // bounded unfairness: an operation that has waited for `MAX_WAIT` decisions is served
                // next (a node may be slow, but no node is stalled forever: liveness is judged under
                // a scheduler that is unfair only for a bounded number of steps)
                const MAX_WAIT: u64 = 400;
                let starving = ctx.pending.iter().position(|p| ctx.stats.steps.saturating_sub(p.enq_step) > MAX_WAIT);
                let idx = if n == 1 {
                    0
                } else if let Some(i) = starving {
                    i
                } else {
                    match ctx.cfg.policy {
                        Policy::Uniform => ctx.chooser.choose(n as u32) as usize,
                        Policy::Sticky(p) => {
                            let stay = ctx.chooser.choose(100) < p as u32;
                            let same = ctx.last_task.and_then(|t| ctx.pending.iter().position(|p| p.task == t));
                            match (stay, same) {
                                (true, Some(i)) => i,
                                _ => ctx.chooser.choose(n as u32) as usize,
                            }
                        }
                        Policy::Fifo(inv) => {
                            if inv > 0 && ctx.chooser.choose(100) < inv as u32 {
                                ctx.chooser.choose(n as u32) as usize
                            } else {
                                0
                            }
                        }
                        Policy::Lifo(inv) => {
                            if inv > 0 && ctx.chooser.choose(100) < inv as u32 {
                                ctx.chooser.choose(n as u32) as usize
                            } else {
                                n - 1
                            }
                        }
                    }
                };
                let p = ctx.pending.remove(idx);
                ctx.last_task = Some(p.task);
                // fault?
                let mut verdict = Verdict::Grant;
                if p.desc.site.is_db() && p.desc.site != Site::DbCommitRecord {
                    let cnt = ctx.db_op_count.entry(p.desc.handle).or_insert(0);
                    let k = *cnt;
                    *cnt += 1;
                    let sites = ctx.db_op_sites.entry(p.desc.handle).or_default();
                    if sites.len() < 100_000 {
                        sites.push(p.desc.site);
                    }
                    if ctx.cfg.faults.fail_at.iter().any(|(h, kk)| *h == p.desc.handle && *kk == k) {
                        verdict = Verdict::Fail;
                    } else if faults_on {
                        let table = if p.desc.site.is_read() {
                            &ctx.cfg.faults.read_fail_permille
                        } else {
                            &ctx.cfg.faults.write_fail_permille
                        };
                        if let Some((_, pm)) = table.iter().find(|(h, _)| *h == p.desc.handle) {
                            let pm = *pm;
                            if ctx.chooser.chance(pm) {
                                verdict = Verdict::Fail;
                            }
                        }
                    }
                    if verdict == Verdict::Fail {
                        let kind = if p.desc.site.is_read() { "read_error" } else { "write_rejected" };
                        *ctx.stats.faults.entry(kind.into()).or_insert(0) += 1;
                    }
                }
                *ctx.stats.grants.entry(p.desc.site.name()).or_insert(0) += 1;
                (p.task, p.desc.site, &p.desc.key, p.desc.handle, verdict == Verdict::Fail).hash(&mut ctx.hasher);
                if ctx.log_on && ctx.log.len() < 20_000 {
                    let step = ctx.stats.steps;
                    ctx.log.push(format!(
                        "[{step}] release seq={} task={} h={} {} key={} pending={} {}",
                        p.seq,
                        p.task,
                        p.desc.handle,
                        p.desc.site.name(),
                        hex::encode(&p.desc.key[..p.desc.key.len().min(12)]),
                        n,
                        if verdict == Verdict::Fail { "FAIL" } else { "" }
                    ));
                }
                Act::Release(p, verdict)
            });
            match act {
                Act::Idle => {
                    idle_streak += 1;
                    CTX.with(|c| c.borrow_mut().as_mut().unwrap().stats.idle_ticks += 1);
                    if idle_streak > 4000 {
                        end = EndState::Deadlock;
                        break;
                    }
                    // let long timers (poller periods, actor sleeps) fire cheaply
                    if idle_streak > 4 {
                        let ms = (1u64 << (idle_streak.min(14) - 4)).min(1000);
                        tokio::time::sleep(Duration::from_millis(ms)).await;
                    }
                }
                Act::Limit => {
                    end = EndState::StepLimit;
                    break;
                }
                Act::Jump(ms) => {
                    idle_streak = 0;
                    tokio::time::advance(Duration::from_millis(ms)).await;
                }
                Act::Release(p, verdict) => {
                    idle_streak = 0;
                    let _ = p.tx.send(verdict);
                }
            }
        }
        let elapsed = tokio::time::Instant::now().duration_since(start).as_millis() as u64;
        CTX.with(|c| c.borrow_mut().as_mut().unwrap().stats.virtual_ms = elapsed);
        handle.abort();
        (value, end)
    });
    akd::verif_hooks::install_sim_point(None);
    // dropping the runtime drops all remaining tasks (pollers, parked ops)
    let ctx = CTX.with(|c| c.borrow_mut().take()).unwrap();
    drop(rt);
    let mut stats = ctx.stats;
    stats.interleaving = ctx.hasher.finish();
    stats.tasks_seen = ctx.task_ids.len() as u32;
    SimResult { value, end, stats, trace: ctx.chooser.record, log: ctx.log, probes: ctx.probes }
}
