//! Seeded search, replay, minimisation, known findings, evidence.

use crate::rng::{mix, ChooserSpec, Rng};
use crate::sched::RunStats;
use serde::{Deserialize, Serialize};
use serde_json::{json, Value};
use std::collections::{BTreeMap, BTreeSet};
use std::sync::atomic::{AtomicBool, AtomicU64, Ordering};
use std::sync::Mutex;
use std::time::Instant;

#[derive(Clone, Copy, Debug, PartialEq, Eq)]
pub enum Tier {
    Quick,
    Thorough,
}

impl Tier {
    pub fn name(&self) -> &'static str {
        match self {
            Tier::Quick => "quick",
            Tier::Thorough => "thorough",
        }
    }
}

#[derive(Clone, Debug, Serialize, Deserialize, PartialEq, Eq)]
pub struct Violation {
    /// short, stable identifier of the oracle that fired (the "violation class")
    pub class: String,
    /// human-readable details (not part of the class)
    pub detail: String,
    /// structured facts about the minimised violation that known-finding matchers look at
    #[serde(default)]
    pub facts: BTreeMap<String, Value>,
}

impl Violation {
    pub fn new(class: &str, detail: String) -> Self {
        Violation { class: class.to_string(), detail, facts: BTreeMap::new() }
    }
    pub fn fact(mut self, k: &str, v: Value) -> Self {
        self.facts.insert(k.to_string(), v);
        self
    }
}

#[derive(Default)]
pub struct RunReport {
    pub violations: Vec<Violation>,
    pub harness_error: Option<String>,
    pub stats: RunStats,
    pub probes: BTreeMap<String, u64>,
    pub trace: Vec<u32>,
    pub log: Vec<String>,
    /// fingerprints of the distinct non-trivial cases this run contributed (by the arm's rule)
    pub nontrivial: Vec<u64>,
    /// fingerprints of distinct states reached
    pub states: Vec<u64>,
    /// number of individual oracle evaluations performed
    pub checks: u64,
    pub sample: Option<Value>,
    /// when set, a simulation deadlock / step limit is a violation of this class (bounded liveness)
    pub liveness_class: Option<String>,
    /// when an arm enumerates sub-cases inside one run, the spec that reproduces the failing sub-case alone
    pub spec_override: Option<Value>,
}

impl RunReport {
    pub fn violate(&mut self, v: Violation) {
        if self.violations.len() < 8 {
            self.violations.push(v);
        }
    }
    pub fn probe(&mut self, name: &str) {
        *self.probes.entry(name.to_string()).or_insert(0) += 1;
    }
    pub fn probe_n(&mut self, name: &str, n: u64) {
        *self.probes.entry(name.to_string()).or_insert(0) += n;
    }
    pub fn absorb<T>(&mut self, r: crate::sched::SimResult<T>) -> Option<T> {
        self.stats = r.stats;
        self.trace = r.trace;
        self.log = r.log;
        for (k, v) in r.probes {
            *self.probes.entry(k.to_string()).or_insert(0) += v;
        }
        match r.end {
            crate::sched::EndState::Finished => {}
            crate::sched::EndState::Deadlock | crate::sched::EndState::StepLimit => match self.liveness_class.clone() {
                Some(c) => self.violate(Violation::new(&c, format!("no progress: {:?} after {} steps", r.end, self.stats.steps))),
                None => self.harness_error = Some(format!("simulation ended with {:?} (nothing pending / step limit, root not finished)", r.end)),
            },
            crate::sched::EndState::RootPanicked(m) => {
                // a panic raised inside akd's own sources is the system's behaviour, not the harness's
                if m.contains("/repo/akd") {
                    self.violate(Violation::new("akd_panic", format!("akd code panicked: {m}")));
                } else {
                    self.harness_error = Some(format!("root actor panicked: {m}"));
                }
            }
        }
        r.value
    }
}

pub trait Arm: Sync + Send {
    fn id(&self) -> &'static str;
    fn level(&self) -> &'static str {
        "exploration"
    }
    /// number of runs per tier
    fn runs(&self, tier: Tier) -> u64;
    /// generate configuration + workload for one run
    fn gen(&self, rng: &mut Rng, tier: Tier, index: u64) -> Value;
    fn run(&self, spec: &Value, chooser: &ChooserSpec, log: bool) -> RunReport;
    /// smaller variants of a failing spec, most aggressive first
    fn shrink(&self, _spec: &Value) -> Vec<Value> {
        vec![]
    }
    fn rule(&self) -> String;
    fn assumptions(&self) -> Vec<String>;
    fn real_vs_stub(&self) -> Value {
        json!({
            "real": ["Directory", "ReadOnlyDirectory", "Azks", "TreeNode", "StorageManager", "Transaction", "TimedCache", "auditor", "verifiers", "protobuf conversions", "ECVRF", "AsyncInMemoryDatabase (behind SimDb)"],
            "stub": ["durable storage engine (SimDb: record-atomic KV with faults)", "network (SimNet: in-process byte channel)", "clock (tokio paused clock; cache reads it through hook H1)", "VRF key custody (fixed bytes)", "executor: tokio current_thread, who-runs-next decided by the simulator"]
        })
    }
    /// extra per-arm evidence fields
    fn extra_evidence(&self) -> Value {
        json!({})
    }
}

#[derive(Serialize, Deserialize, Clone)]
pub struct ReplayFile {
    pub property: String,
    pub seed: u64,
    pub run_index: u64,
    pub spec: Value,
    pub trace: Vec<u32>,
    pub violation: Violation,
    pub akd_commit: String,
    pub note: String,
}

#[derive(Deserialize, Clone, Debug)]
pub struct KnownFinding {
    pub property: String,
    pub id: String,
    /// violation class this finding is about
    pub class: String,
    /// facts that must all be equal in the violation for it to count as this finding
    #[serde(default)]
    pub facts: BTreeMap<String, Value>,
    pub what: String,
}

#[derive(Deserialize, Clone, Debug, Default)]
pub struct KnownFindings {
    #[serde(default)]
    pub known: Vec<KnownFinding>,
    #[serde(default)]
    pub fixed: Vec<Value>,
}

pub fn load_known(verif_dir: &str) -> KnownFindings {
    let p = format!("{verif_dir}/known_findings.json");
    match std::fs::read_to_string(&p) {
        Ok(s) => serde_json::from_str(&s).unwrap_or_else(|e| {
            eprintln!("harness error: {p} does not parse: {e}");
            std::process::exit(2)
        }),
        Err(_) => KnownFindings::default(),
    }
}

pub fn match_known<'a>(kf: &'a KnownFindings, prop: &str, v: &Violation) -> Option<&'a KnownFinding> {
    kf.known.iter().find(|k| {
        k.property == prop && k.class == v.class && k.facts.iter().all(|(fk, fv)| v.facts.get(fk) == Some(fv))
    })
}

pub fn verif_dir() -> String {
    std::env::var("VERIF_DIR").unwrap_or_else(|_| "/verif".to_string())
}

pub fn akd_commit() -> String {
    std::process::Command::new("git")
        .args(["-C", "/repo", "rev-parse", "--short", "HEAD"])
        .output()
        .ok()
        .and_then(|o| String::from_utf8(o.stdout).ok())
        .map(|s| s.trim().to_string())
        .unwrap_or_default()
}

pub fn run_seed(base: u64, prop: &str, index: u64) -> u64 {
    mix(&[base, crate::rng::fp_bytes(prop.as_bytes()), index])
}

struct Agg {
    evaluations: u64,
    checks: u64,
    nontrivial: BTreeSet<u64>,
    states: BTreeSet<u64>,
    interleavings: BTreeSet<u64>,
    probes: BTreeMap<String, u64>,
    grants: BTreeMap<String, u64>,
    faults: BTreeMap<String, u64>,
    steps: u64,
    choice_steps: u64,
    virtual_ms: u64,
    max_pending: usize,
    samples: Vec<Value>,
    failures: Vec<(u64, u64, Value, Vec<u32>, Violation)>,
    harness_errors: Vec<String>,
}

/// Execute one tier of one property. Returns the process exit code.
pub fn check(arm: &dyn Arm, tier: Tier, base_seed: u64) -> i32 {
    let t0 = Instant::now();
    let id = arm.id();
    let total = std::env::var("VERIF_RUNS").ok().and_then(|s| s.parse().ok()).unwrap_or_else(|| arm.runs(tier));
    let threads: usize = std::env::var("VERIF_THREADS").ok().and_then(|s| s.parse().ok()).unwrap_or(16);
    let next = AtomicU64::new(0);
    let stop = AtomicBool::new(false);
    let agg = Mutex::new(Agg {
        evaluations: 0,
        checks: 0,
        nontrivial: BTreeSet::new(),
        states: BTreeSet::new(),
        interleavings: BTreeSet::new(),
        probes: BTreeMap::new(),
        grants: BTreeMap::new(),
        faults: BTreeMap::new(),
        steps: 0,
        choice_steps: 0,
        virtual_ms: 0,
        max_pending: 0,
        samples: vec![],
        failures: vec![],
        harness_errors: vec![],
    });
    println!("check {id} tier={} seed={base_seed} runs={total} threads={threads}", tier.name());
    std::thread::scope(|s| {
        for _ in 0..threads {
            s.spawn(|| {
                crate::sched::install_quiet_panic_hook();
                loop {
                    if stop.load(Ordering::Relaxed) {
                        break;
                    }
                    let i = next.fetch_add(1, Ordering::Relaxed);
                    if i >= total {
                        break;
                    }
                    let seed = run_seed(base_seed, id, i);
                    let mut rng = Rng::new(seed);
                    let spec = arm.gen(&mut rng, tier, i);
                    let chooser = ChooserSpec::Seeded(mix(&[seed, 0x5ced]));
                    let rep = match std::panic::catch_unwind(std::panic::AssertUnwindSafe(|| arm.run(&spec, &chooser, false))) {
                        Ok(r) => r,
                        Err(_) => {
                            let mut r = RunReport::default();
                            r.harness_error = Some(format!("harness panicked: {:?}", crate::sched::take_last_panic()));
                            r
                        }
                    };
                    let mut a = agg.lock().unwrap();
                    a.evaluations += 1;
                    a.checks += rep.checks;
                    a.nontrivial.extend(rep.nontrivial.iter().copied());
                    a.states.extend(rep.states.iter().copied());
                    if rep.stats.steps > 0 {
                        a.interleavings.insert(rep.stats.interleaving);
                    }
                    for (k, v) in &rep.probes {
                        *a.probes.entry(k.clone()).or_insert(0) += v;
                    }
                    for (k, v) in &rep.stats.grants {
                        *a.grants.entry(k.clone()).or_insert(0) += v;
                    }
                    for (k, v) in &rep.stats.faults {
                        *a.faults.entry(k.clone()).or_insert(0) += v;
                    }
                    a.steps += rep.stats.steps;
                    a.choice_steps += rep.stats.choice_steps;
                    a.virtual_ms += rep.stats.virtual_ms;
                    a.max_pending = a.max_pending.max(rep.stats.max_pending);
                    if a.samples.len() < 3 {
                        if let Some(s) = rep.sample {
                            a.samples.push(s);
                        }
                    }
                    if let Some(e) = rep.harness_error {
                        if a.harness_errors.len() < 5 {
                            a.harness_errors.push(format!("run {i} seed {seed}: {e}"));
                        }
                        stop.store(true, Ordering::Relaxed);
                    }
                    if !rep.violations.is_empty() {
                        // keep at most a handful of failing runs, first violation of each
                        if a.failures.len() < 64 {
                            let fspec = rep.spec_override.clone().unwrap_or_else(|| spec.clone());
                            for v in rep.violations {
                                a.failures.push((i, seed, fspec.clone(), rep.trace.clone(), v));
                            }
                        }
                    }
                }
            });
        }
    });
    let mut a = agg.into_inner().unwrap();
    let wall = t0.elapsed().as_secs_f64();

    if !a.harness_errors.is_empty() {
        for e in &a.harness_errors {
            println!("HARNESS-ERROR property={id} {e}");
        }
        return 2;
    }

    // triage failures: known findings vs unlisted violations
    let kf = load_known(&verif_dir());
    let mut known_hits: BTreeMap<String, (String, u64)> = BTreeMap::new();
    let mut unlisted: Vec<(u64, u64, Value, Vec<u32>, Violation)> = vec![];
    a.failures.sort_by_key(|f| f.0);
    for f in a.failures.drain(..) {
        match match_known(&kf, id, &f.4) {
            Some(k) => {
                let e = known_hits.entry(k.id.clone()).or_insert((k.what.clone(), 0));
                e.1 += 1;
            }
            None => unlisted.push(f),
        }
    }
    for (kid, (what, n)) in &known_hits {
        println!("KNOWN-FINDING: property={id} {kid}: {what} (hit by {n} runs)");
    }

    let mut exit = 0;
    let mut violations_reported = 0;
    if !unlisted.is_empty() {
        // distinct classes, first occurrence each; minimise, store, verify replay
        let mut seen = BTreeSet::new();
        for (idx, seed, spec, trace, viol) in unlisted {
            if !seen.insert(viol.class.clone()) || seen.len() > 3 {
                continue;
            }
            let (mspec, mtrace, mviol) = minimise(arm, &spec, &trace, &viol, &kf);
            let dir = format!("{}/replays/{id}", verif_dir());
            let _ = std::fs::create_dir_all(&dir);
            let path = format!("{dir}/{seed}-{}.json", sanitize(&mviol.class));
            let rf = ReplayFile {
                property: id.to_string(),
                seed,
                run_index: idx,
                spec: mspec,
                trace: mtrace,
                violation: mviol.clone(),
                akd_commit: akd_commit(),
                note: format!("VERIF_SEED={base_seed} tier={}", tier.name()),
            };
            std::fs::write(&path, serde_json::to_string_pretty(&rf).unwrap()).expect("write replay");
            // replay in a fresh process; refuse to report what does not reproduce
            let ok = std::process::Command::new(std::env::current_exe().unwrap())
                .args(["replay", &path, "--quiet"])
                .status()
                .map(|s| s.code() == Some(1))
                .unwrap_or(false);
            if !ok {
                println!("HARNESS-ERROR property={id} replay {path} did not reproduce class {} in a fresh process", mviol.class);
                return 2;
            }
            println!("  violation class={} : {}", mviol.class, mviol.detail);
            println!("VIOLATION property={id} replay={path}");
            violations_reported += 1;
            exit = 1;
        }
    }

    // evidence
    let ev = json!({
        "property_id": id,
        "tier": tier.name(),
        "seed": base_seed,
        "level": arm.level(),
        "wall_s": wall,
        "violations": violations_reported,
        "coverage": {
            "evaluations": a.evaluations,
            "distinct_nontrivial": a.nontrivial.len(),
            "rule": arm.rule(),
            "samples": a.samples,
            "oracle_checks": a.checks,
            "runs_per_hour": if wall > 0.0 { (a.evaluations as f64 / wall * 3600.0) as u64 } else { 0 },
            "simulated_ms": a.virtual_ms,
            "scheduling_decisions": a.steps,
            "decisions_with_a_choice": a.choice_steps,
            "max_pending_ops": a.max_pending,
            "distinct_interleavings": a.interleavings.len(),
            "distinct_states": a.states.len(),
            "released_ops_by_site": a.grants,
            "faults_fired": a.faults,
            "probes": a.probes,
            "known_findings_hit": known_hits.iter().map(|(k, v)| (k.clone(), v.1)).collect::<BTreeMap<_, _>>(),
            "real_vs_stub": arm.real_vs_stub(),
            "threads": threads,
            "seed_derivation": "run i uses mix(VERIF_SEED, hash(property id), i) for its workload and mix(that, 0x5ced) for its scheduling / fault decisions",
            "akd_commit": akd_commit(),
            "extra": arm.extra_evidence(),
        },
        "assumptions": arm.assumptions(),
    });
    let evdir = format!("{}/evidence", verif_dir());
    let _ = std::fs::create_dir_all(&evdir);
    std::fs::write(format!("{evdir}/{id}.json"), serde_json::to_string_pretty(&ev).unwrap()).expect("write evidence");
    println!(
        "done {id}: runs={} nontrivial={} checks={} steps={} interleavings={} wall={:.1}s exit={exit}",
        a.evaluations,
        a.nontrivial.len(),
        a.checks,
        a.steps,
        a.interleavings.len(),
        wall
    );
    exit
}

fn sanitize(s: &str) -> String {
    s.chars().map(|c| if c.is_ascii_alphanumeric() || c == '_' || c == '-' { c } else { '_' }).collect()
}

/// Does this (spec, trace) still show a violation of the same class that is not a known finding?
fn still_fails(arm: &dyn Arm, spec: &Value, trace: &[u32], class: &str, kf: &KnownFindings) -> Option<(Vec<u32>, Violation)> {
    let rep = std::panic::catch_unwind(std::panic::AssertUnwindSafe(|| arm.run(spec, &ChooserSpec::Trace(trace.to_vec()), false))).ok()?;
    if rep.harness_error.is_some() {
        return None;
    }
    rep.violations
        .into_iter()
        .find(|v| v.class == class && match_known(kf, arm.id(), v).is_none())
        .map(|v| (rep.trace, v))
}

/// Shrink the workload, then the decision trace, keeping the violation class.
pub fn minimise(arm: &dyn Arm, spec: &Value, trace: &[u32], viol: &Violation, kf: &KnownFindings) -> (Value, Vec<u32>, Violation) {
    let t0 = Instant::now();
    let budget = std::time::Duration::from_secs(60);
    let mut cur_spec = spec.clone();
    let mut cur_trace = trace.to_vec();
    let mut cur_viol = viol.clone();
    // make sure trace-mode replay of the original reproduces at all
    match still_fails(arm, &cur_spec, &cur_trace, &viol.class, kf) {
        Some((t, v)) => {
            cur_trace = t;
            cur_viol = v;
        }
        None => return (cur_spec, cur_trace, cur_viol),
    }
    // 1. workload
    let mut progress = true;
    let mut rounds = 0;
    while progress && t0.elapsed() < budget && rounds < 200 {
        progress = false;
        rounds += 1;
        for cand in arm.shrink(&cur_spec) {
            if t0.elapsed() > budget {
                break;
            }
            if let Some((t, v)) = still_fails(arm, &cand, &cur_trace, &viol.class, kf) {
                cur_spec = cand;
                cur_trace = t;
                cur_viol = v;
                progress = true;
                break;
            }
        }
    }
    // 2. decisions: zero out chunks (0 = oldest pending / no fault / no jump)
    let mut chunk = (cur_trace.len() / 2).max(1);
    while chunk >= 1 && t0.elapsed() < budget {
        let mut i = 0;
        while i < cur_trace.len() && t0.elapsed() < budget {
            let end = (i + chunk).min(cur_trace.len());
            if cur_trace[i..end].iter().any(|x| *x != 0) {
                let mut cand = cur_trace.clone();
                for x in &mut cand[i..end] {
                    *x = 0;
                }
                if let Some((_, v)) = still_fails(arm, &cur_spec, &cand, &viol.class, kf) {
                    cur_trace = cand;
                    cur_viol = v;
                }
            }
            i = end;
        }
        if chunk == 1 {
            break;
        }
        chunk /= 2;
    }
    // drop trailing zeros (implicit)
    while cur_trace.last() == Some(&0) {
        cur_trace.pop();
    }
    (cur_spec, cur_trace, cur_viol)
}

/// `akd-sim replay <file>`: exit 1 if the recorded violation class reproduces, 0 if not, 2 on error
pub fn replay(arm: &dyn Arm, rf: &ReplayFile, quiet: bool) -> i32 {
    crate::sched::install_quiet_panic_hook();
    let rep = arm.run(&rf.spec, &ChooserSpec::Trace(rf.trace.clone()), !quiet);
    if let Some(e) = rep.harness_error {
        println!("HARNESS-ERROR during replay: {e}");
        return 2;
    }
    if !quiet {
        for l in &rep.log {
            println!("{l}");
        }
    }
    match rep.violations.iter().find(|v| v.class == rf.violation.class) {
        Some(v) => {
            println!("REPRODUCED property={} class={} : {}", rf.property, v.class, v.detail);
            1
        }
        None => {
            println!("NOT-REPRODUCED property={} class={} (violations now: {:?})", rf.property, rf.violation.class, rep.violations.iter().map(|v| &v.class).collect::<Vec<_>>());
            0
        }
    }
}

/// ddmin-style candidates for a JSON array field: drop halves, quarters, ..., single elements
pub fn drop_candidates(spec: &Value, path: &[&str]) -> Vec<Value> {
    fn get_mut<'a>(v: &'a mut Value, path: &[&str]) -> Option<&'a mut Value> {
        let mut cur = v;
        for p in path {
            cur = cur.get_mut(*p)?;
        }
        Some(cur)
    }
    let mut out = vec![];
    let mut probe = spec.clone();
    let n = match get_mut(&mut probe, path).and_then(|v| v.as_array().map(|a| a.len())) {
        Some(n) => n,
        None => return out,
    };
    if n == 0 {
        return out;
    }
    let mut chunk = n.div_ceil(2);
    loop {
        let mut i = 0;
        while i < n {
            let end = (i + chunk).min(n);
            let mut c = spec.clone();
            if let Some(Value::Array(a)) = get_mut(&mut c, path) {
                a.drain(i..end);
            }
            out.push(c);
            i = end;
        }
        if chunk == 1 {
            break;
        }
        chunk = chunk.div_ceil(2);
        if out.len() > 400 {
            break;
        }
    }
    out
}

/// `akd-sim fingerprints <ID> <tier> <n>`: one line per run with everything observable about it;
/// two processes (different RandomState, different thread counts) must print identical output.
pub fn fingerprints(arm: &dyn Arm, tier: Tier, base_seed: u64, n: u64) {
    let threads: usize = std::env::var("VERIF_THREADS").ok().and_then(|s| s.parse().ok()).unwrap_or(16);
    let next = AtomicU64::new(0);
    let out = Mutex::new(BTreeMap::new());
    std::thread::scope(|s| {
        for _ in 0..threads {
            s.spawn(|| {
                crate::sched::install_quiet_panic_hook();
                loop {
                    let i = next.fetch_add(1, Ordering::Relaxed);
                    if i >= n {
                        break;
                    }
                    let seed = run_seed(base_seed, arm.id(), i);
                    let mut rng = Rng::new(seed);
                    let spec = arm.gen(&mut rng, tier, i);
                    let chooser = ChooserSpec::Seeded(mix(&[seed, 0x5ced]));
                    let rep = arm.run(&spec, &chooser, false);
                    let line = format!(
                        "{i} seed={seed} spec={:016x} inter={:016x} trace={:016x} steps={} vms={} checks={} states={:016x} probes={:016x} viol={:?} herr={:?}",
                        crate::rng::fp(&spec.to_string()),
                        rep.stats.interleaving,
                        crate::rng::fp(&rep.trace),
                        rep.stats.steps,
                        rep.stats.virtual_ms,
                        rep.checks,
                        crate::rng::fp(&rep.states),
                        crate::rng::fp(&rep.probes),
                        rep.violations.iter().map(|v| (&v.class, &v.detail)).collect::<Vec<_>>(),
                        rep.harness_error
                    );
                    out.lock().unwrap().insert(i, line);
                }
            });
        }
    });
    for (_, l) in out.into_inner().unwrap() {
        println!("{l}");
    }
}
