//! Reference model: the publish history is the state; everything else is derived.
//! Hash and commitment formulas are re-implemented from the specification in
//! akd_core/src/lib.rs directly on blake3, for both configurations. No tree code from akd.
//! Trusted from akd: the ECVRF primitive (prove / proof -> output).

use akd::ecvrf::{VRFKeyStorage, VRFPrivateKey, VRFPublicKey, VrfError};
use akd::{AkdLabel, AkdValue, NodeLabel};
use serde::{Deserialize, Serialize};
use std::collections::{BTreeMap, HashMap};
use std::convert::TryFrom;

pub type H32 = [u8; 32];

#[derive(Clone, Copy, Debug, PartialEq, Eq, Hash, Serialize, Deserialize)]
pub enum Cfg {
    WhatsApp,
    Experimental,
}

/// ties an akd `Configuration` type to the model's enum
pub trait ModelCfg: akd::Configuration {
    const CFG: Cfg;
}
impl ModelCfg for akd::WhatsAppV1Configuration {
    const CFG: Cfg = Cfg::WhatsApp;
}
impl ModelCfg for akd::ExperimentalConfiguration<akd::ExampleLabel> {
    const CFG: Cfg = Cfg::Experimental;
}

pub const KEY_BYTES: [u8; 32] = [
    0xc9, 0xaf, 0xa9, 0xd8, 0x45, 0xba, 0x75, 0x16, 0x6b, 0x5c, 0x21, 0x57, 0x67, 0xb1, 0xd6, 0x93, 0x4e, 0x50, 0xc3,
    0xdb, 0x36, 0xe8, 0x9b, 0x12, 0x7b, 0x8a, 0x62, 0x2b, 0x12, 0x0f, 0x67, 0x21,
];

/// VRF key custody stub: fixed bytes (a second key for cross-key checks)
#[derive(Clone)]
pub struct SimVrf(pub [u8; 32]);

impl Default for SimVrf {
    fn default() -> Self {
        SimVrf(KEY_BYTES)
    }
}

#[async_trait::async_trait]
impl VRFKeyStorage for SimVrf {
    async fn retrieve(&self) -> Result<Vec<u8>, VrfError> {
        Ok(self.0.to_vec())
    }
}

impl Cfg {
    pub fn hash(&self, data: &[u8]) -> H32 {
        match self {
            Cfg::WhatsApp => *blake3::hash(data).as_bytes(),
            Cfg::Experimental => {
                let mut h = blake3::Hasher::new();
                h.update(b"ExampleLabel");
                h.update(data);
                *h.finalize().as_bytes()
            }
        }
    }
    fn empty_label_bytes(&self) -> Vec<u8> {
        // label_len (u32 BE) || label_val
        let mut v = vec![0u8, 0, 0, 0];
        match self {
            Cfg::WhatsApp => v.extend_from_slice(&[1u8; 32]),
            Cfg::Experimental => {
                let mut val = [0u8; 32];
                val[0] = 1;
                v.extend_from_slice(&val);
            }
        }
        v
    }
    /// the value of a node label as it enters a parent hash
    fn label_value(&self, label_bytes: &[u8]) -> Vec<u8> {
        match self {
            Cfg::WhatsApp => self.hash(label_bytes).to_vec(),
            Cfg::Experimental => label_bytes.to_vec(),
        }
    }
    fn empty_node_hash(&self) -> H32 {
        match self {
            Cfg::WhatsApp => {
                let mut d = self.hash(&[0u8]).to_vec();
                d.extend_from_slice(&self.label_value(&self.empty_label_bytes()));
                self.hash(&d)
            }
            Cfg::Experimental => [0u8; 32],
        }
    }
    fn empty_root_value(&self) -> H32 {
        match self {
            Cfg::WhatsApp => self.hash(&[0u8]),
            Cfg::Experimental => [0u8; 32],
        }
    }
    pub fn stale_commitment(&self) -> H32 {
        match self {
            Cfg::WhatsApp => self.hash(&[0u8]),
            Cfg::Experimental => [0u8; 32],
        }
    }
    fn parent_hash(&self, lv: &H32, ll: &[u8], rv: &H32, rl: &[u8]) -> H32 {
        match self {
            Cfg::WhatsApp => {
                let l = self.hash(&[&lv[..], ll].concat());
                let r = self.hash(&[&rv[..], rl].concat());
                self.hash(&[&l[..], &r[..]].concat())
            }
            Cfg::Experimental => self.hash(&[&lv[..], ll, &rv[..], rl].concat()),
        }
    }
    fn root_hash_from_val(&self, v: &H32) -> H32 {
        match self {
            Cfg::WhatsApp => {
                let mut root_label = vec![0u8; 4];
                root_label.extend_from_slice(&[0u8; 32]);
                self.hash(&[&v[..], &self.label_value(&root_label)].concat())
            }
            Cfg::Experimental => *v,
        }
    }
    pub fn commitment_key(&self, raw_key: &[u8]) -> H32 {
        self.hash(raw_key)
    }
    pub fn nonce(&self, ckey: &H32, node_label: &H32, version: u64, value: &[u8]) -> H32 {
        let mut lb = 256u32.to_be_bytes().to_vec();
        lb.extend_from_slice(node_label);
        match self {
            Cfg::WhatsApp => self.hash(&[&ckey[..], &lb, &version.to_be_bytes(), &i2osp(value)].concat()),
            Cfg::Experimental => self.hash(&[&ckey[..], &lb[..]].concat()),
        }
    }
    pub fn commitment(&self, ckey: &H32, node_label: &H32, version: u64, value: &[u8]) -> H32 {
        let nonce = self.nonce(ckey, node_label, version, value);
        self.hash(&[i2osp(value), i2osp(&nonce)].concat())
    }
    pub fn leaf_hash(&self, commitment: &H32, epoch: u64) -> H32 {
        self.hash(&[&commitment[..], &epoch.to_be_bytes()].concat())
    }
    pub fn vrf_input(&self, label: &[u8], fresh: bool, version: u64) -> H32 {
        self.hash(&[&i2osp(label)[..], &[fresh as u8], &version.to_be_bytes()].concat())
    }
}

pub fn i2osp(x: &[u8]) -> Vec<u8> {
    [&(x.len() as u64).to_be_bytes()[..], x].concat()
}

fn bit(v: &H32, i: usize) -> u8 {
    (v[i / 8] >> (7 - (i % 8))) & 1
}

fn prefix_bytes(v: &H32, len: usize) -> Vec<u8> {
    let mut out = [0u8; 32];
    let full = len / 8;
    out[..full].copy_from_slice(&v[..full]);
    if len % 8 != 0 {
        out[full] = v[full] & (0xFFu8 << (8 - len % 8));
    }
    let mut b = (len as u32).to_be_bytes().to_vec();
    b.extend_from_slice(&out);
    b
}

/// A leaf of the model's tree: 256-bit label, commitment (before the epoch is mixed in), epoch
#[derive(Clone, Debug, PartialEq, Eq, PartialOrd, Ord, Hash, Serialize, Deserialize)]
pub struct Leaf {
    pub label: H32,
    pub commitment: H32,
    pub epoch: u64,
}

/// (hash as it enters the parent, label bytes) of the canonical compressed subtree over
/// `leaves` (sorted, distinct, all sharing their first `depth` bits)
fn subtree(cfg: Cfg, leaves: &[Leaf], depth: usize) -> (H32, Vec<u8>) {
    if leaves.len() == 1 {
        let l = &leaves[0];
        let mut lb = 256u32.to_be_bytes().to_vec();
        lb.extend_from_slice(&l.label);
        return (cfg.leaf_hash(&l.commitment, l.epoch), lb);
    }
    // first bit position >= depth where first and last differ (leaves are sorted)
    let first = &leaves[0].label;
    let last = &leaves[leaves.len() - 1].label;
    let mut d = depth;
    while bit(first, d) == bit(last, d) {
        d += 1;
    }
    let split = leaves.partition_point(|l| bit(&l.label, d) == 0);
    let (lh, ll) = subtree(cfg, &leaves[..split], d + 1);
    let (rh, rl) = subtree(cfg, &leaves[split..], d + 1);
    let h = cfg.parent_hash(&lh, &cfg.label_value(&ll), &rh, &cfg.label_value(&rl));
    (h, prefix_bytes(first, d))
}

/// Root hash of the canonical compressed binary trie over a leaf set
pub fn root_hash(cfg: Cfg, leaves: &[Leaf]) -> H32 {
    let mut sorted: Vec<Leaf> = leaves.to_vec();
    sorted.sort();
    if sorted.is_empty() {
        return cfg.root_hash_from_val(&cfg.empty_root_value());
    }
    let split = sorted.partition_point(|l| bit(&l.label, 0) == 0);
    let empty = (cfg.empty_node_hash(), cfg.empty_label_bytes());
    let left = if split > 0 { subtree(cfg, &sorted[..split], 1) } else { empty.clone() };
    let right = if split < sorted.len() { subtree(cfg, &sorted[split..], 1) } else { empty };
    let v = cfg.parent_hash(&left.0, &cfg.label_value(&left.1), &right.0, &cfg.label_value(&right.1));
    cfg.root_hash_from_val(&v)
}

#[derive(Clone, Debug, PartialEq, Eq, Serialize, Deserialize)]
pub struct Ver {
    pub version: u64,
    pub value: Vec<u8>,
    pub epoch: u64,
}

pub struct VrfOracle {
    cfg: Cfg,
    key: VRFPrivateKey,
    pub pk: VRFPublicKey,
    pub raw: [u8; 32],
    cache: HashMap<(Vec<u8>, bool, u64), H32>,
}

impl VrfOracle {
    pub fn new(cfg: Cfg, raw: [u8; 32]) -> Self {
        let key = VRFPrivateKey::try_from(&raw[..]).expect("vrf key");
        let pk = VRFPublicKey::from(&key);
        VrfOracle { cfg, key, pk, raw, cache: HashMap::new() }
    }
    pub fn pk_bytes(&self) -> Vec<u8> {
        self.pk.as_bytes().to_vec()
    }
    /// node label for (label, freshness, version): ECVRF output (first 32 bytes) over the
    /// model's own encoding of the VRF input
    pub fn node_label(&mut self, label: &[u8], fresh: bool, version: u64) -> H32 {
        if let Some(h) = self.cache.get(&(label.to_vec(), fresh, version)) {
            return *h;
        }
        let alpha = self.cfg.vrf_input(label, fresh, version);
        let proof = self.key.prove(&alpha);
        let nl = futures_now(SimVrf(self.raw).get_node_label_from_vrf_proof(proof));
        self.cache.insert((label.to_vec(), fresh, version), nl.label_val);
        nl.label_val
    }
}

/// poll a future that is known to complete without suspending
pub fn futures_now<T>(f: impl std::future::Future<Output = T>) -> T {
    use std::task::{Context, Poll, RawWaker, RawWakerVTable, Waker};
    fn noop(_: *const ()) {}
    fn clone(_: *const ()) -> RawWaker {
        RawWaker::new(std::ptr::null(), &VTABLE)
    }
    static VTABLE: RawWakerVTable = RawWakerVTable::new(clone, noop, noop, noop);
    let waker = unsafe { Waker::from_raw(RawWaker::new(std::ptr::null(), &VTABLE)) };
    let mut cx = Context::from_waker(&waker);
    let mut f = std::pin::pin!(f);
    match f.as_mut().poll(&mut cx) {
        Poll::Ready(v) => v,
        Poll::Pending => panic!("futures_now: future suspended"),
    }
}

#[derive(Clone, Debug, PartialEq, Eq)]
pub enum PublishOutcome {
    /// batch repeats a label: rejected without effect
    Rejected,
    /// nothing changed
    NoOp,
    /// epoch advanced
    Advanced,
}

pub struct Model {
    pub cfg: Cfg,
    pub vrf: VrfOracle,
    pub ckey: H32,
    pub epoch: u64,
    pub users: BTreeMap<Vec<u8>, Vec<Ver>>,
    pub leaves: Vec<Leaf>,
    /// root hash per epoch; index = epoch (0 = empty tree)
    pub hashes: Vec<H32>,
    /// (label, epoch) pairs tombstoned and whose original value was non-empty
    pub tombstoned: BTreeMap<(Vec<u8>, u64), ()>,
}

impl Model {
    pub fn new(cfg: Cfg) -> Self {
        Self::with_key(cfg, KEY_BYTES)
    }
    pub fn with_key(cfg: Cfg, raw: [u8; 32]) -> Self {
        let vrf = VrfOracle::new(cfg, raw);
        let ckey = cfg.commitment_key(&raw);
        let h0 = root_hash(cfg, &[]);
        Model {
            cfg,
            vrf,
            ckey,
            epoch: 0,
            users: BTreeMap::new(),
            leaves: vec![],
            hashes: vec![h0],
            tombstoned: BTreeMap::new(),
        }
    }

    pub fn classify(&self, batch: &[(Vec<u8>, Vec<u8>)]) -> PublishOutcome {
        let mut seen = std::collections::BTreeSet::new();
        for (l, _) in batch {
            if !seen.insert(l.clone()) {
                return PublishOutcome::Rejected;
            }
        }
        let changes = batch.iter().any(|(l, v)| match self.users.get(l).and_then(|vs| vs.last()) {
            None => true,
            Some(last) => &last.value != v,
        });
        if changes {
            PublishOutcome::Advanced
        } else {
            PublishOutcome::NoOp
        }
    }

    /// leaves a batch would add at epoch `e` (without applying it)
    fn leaves_for(&mut self, batch: &[(Vec<u8>, Vec<u8>)], e: u64) -> (Vec<Leaf>, Vec<(Vec<u8>, Ver)>) {
        let mut new_leaves = vec![];
        let mut new_vers = vec![];
        for (l, v) in batch {
            let last = self.users.get(l).and_then(|vs| vs.last()).cloned();
            match last {
                None => {
                    let nl = self.vrf.node_label(l, true, 1);
                    new_leaves.push(Leaf { label: nl, commitment: self.cfg.commitment(&self.ckey, &nl, 1, v), epoch: e });
                    new_vers.push((l.clone(), Ver { version: 1, value: v.clone(), epoch: e }));
                }
                Some(last) if &last.value == v => {}
                Some(last) => {
                    let sl = self.vrf.node_label(l, false, last.version);
                    new_leaves.push(Leaf { label: sl, commitment: self.cfg.stale_commitment(), epoch: e });
                    let nv = last.version + 1;
                    let nl = self.vrf.node_label(l, true, nv);
                    new_leaves.push(Leaf { label: nl, commitment: self.cfg.commitment(&self.ckey, &nl, nv, v), epoch: e });
                    new_vers.push((l.clone(), Ver { version: nv, value: v.clone(), epoch: e }));
                }
            }
        }
        (new_leaves, new_vers)
    }

    /// apply a publish batch; returns the outcome and (epoch, root hash) afterwards
    pub fn publish(&mut self, batch: &[(Vec<u8>, Vec<u8>)]) -> (PublishOutcome, u64, H32) {
        let oc = self.classify(batch);
        if oc == PublishOutcome::Advanced {
            let e = self.epoch + 1;
            let (nl, nv) = self.leaves_for(batch, e);
            self.leaves.extend(nl);
            for (l, v) in nv {
                self.users.entry(l).or_default().push(v);
            }
            self.epoch = e;
            let h = root_hash(self.cfg, &self.leaves);
            self.hashes.push(h);
        }
        (oc, self.epoch, self.hashes[self.epoch as usize])
    }

    /// the model as it stood at epoch `e` (tombstones carried over)
    pub fn at_epoch(&self, e: u64) -> Model {
        let mut users = BTreeMap::new();
        for (l, vs) in &self.users {
            let f: Vec<Ver> = vs.iter().filter(|v| v.epoch <= e).cloned().collect();
            if !f.is_empty() {
                users.insert(l.clone(), f);
            }
        }
        Model {
            cfg: self.cfg,
            vrf: VrfOracle { cfg: self.cfg, key: VRFPrivateKey::try_from(&self.vrf.raw[..]).expect("key"), pk: VRFPublicKey::from(&VRFPrivateKey::try_from(&self.vrf.raw[..]).expect("key")), raw: self.vrf.raw, cache: self.vrf.cache.clone() },
            ckey: self.ckey,
            epoch: e.min(self.epoch),
            users,
            leaves: self.leaves_at(e),
            hashes: self.hashes[..=(e.min(self.epoch) as usize)].to_vec(),
            tombstoned: self.tombstoned.clone(),
        }
    }

    pub fn current(&self) -> (u64, H32) {
        (self.epoch, self.hashes[self.epoch as usize])
    }

    pub fn latest(&self, label: &[u8]) -> Option<&Ver> {
        self.users.get(label).and_then(|v| v.last())
    }

    /// newest first; `most_recent` = None for Complete
    pub fn history(&self, label: &[u8], most_recent: Option<usize>) -> Option<Vec<Ver>> {
        let vs = self.users.get(label)?;
        let mut out: Vec<Ver> = vs.iter().rev().cloned().collect();
        if let Some(n) = most_recent {
            out.truncate(n);
        }
        Some(out)
    }

    /// state of the model as it was at epoch `e` (leaf set restricted to epochs <= e)
    pub fn leaves_at(&self, e: u64) -> Vec<Leaf> {
        self.leaves.iter().filter(|l| l.epoch <= e).cloned().collect()
    }

    pub fn latest_at(&self, label: &[u8], e: u64) -> Option<&Ver> {
        self.users.get(label).and_then(|v| v.iter().filter(|x| x.epoch <= e).last())
    }

    pub fn history_at(&self, label: &[u8], e: u64, most_recent: Option<usize>) -> Option<Vec<Ver>> {
        let vs = self.users.get(label)?;
        let mut out: Vec<Ver> = vs.iter().filter(|x| x.epoch <= e).rev().cloned().collect();
        if out.is_empty() {
            return None;
        }
        if let Some(n) = most_recent {
            out.truncate(n);
        }
        Some(out)
    }

    /// record a tombstoning of `label` up to and including epoch `cut`
    pub fn tombstone(&mut self, label: &[u8], cut: u64) {
        if let Some(vs) = self.users.get(label) {
            for v in vs {
                if v.epoch <= cut && !v.value.is_empty() {
                    self.tombstoned.insert((label.to_vec(), v.epoch), ());
                }
            }
        }
    }

    pub fn is_tombstoned(&self, label: &[u8], epoch: u64) -> bool {
        self.tombstoned.contains_key(&(label.to_vec(), epoch))
    }
}

pub fn to_akd_batch(batch: &[(Vec<u8>, Vec<u8>)]) -> Vec<(AkdLabel, AkdValue)> {
    batch.iter().map(|(l, v)| (AkdLabel(l.clone()), AkdValue(v.clone()))).collect()
}

pub fn nl(v: H32) -> NodeLabel {
    NodeLabel::new(v, 256)
}
