//! The history arm: seeded publish histories against the from-scratch model, with the
//! directory's internal tasks scheduled by the simulator. Serves C01, C02, C03, C04, C20 and
//! (fault-free wire round trips) C19.

use crate::harness::{RunReport, Tier, Violation};
use crate::model::{to_akd_batch, Cfg, Model, ModelCfg, PublishOutcome, SimVrf};
use crate::rng::{fp, ChooserSpec, Rng};
use crate::sched::{self, Policy, SimCfg};
use crate::simdb::{SimDb, SimStore};
use crate::wire;
use akd::append_only_zks::{AzksParallelismConfig, AzksParallelismOption};
use akd::directory::{Directory, ReadOnlyDirectory};
use akd::storage::StorageManager;
use akd::verify::history::HistoryParams;
use akd::{AkdLabel, EpochHash, HistoryVerificationParams};
use serde::{Deserialize, Serialize};
use serde_json::{json, Value};
use std::time::Duration;

#[derive(Clone, Debug, Serialize, Deserialize, PartialEq)]
pub enum CacheSpec {
    None,
    Default,
    Custom { lifetime_ms: u64, limit_bytes: Option<usize>, clean_ms: u64 },
}

#[derive(Clone, Debug, Serialize, Deserialize)]
pub enum Op {
    Publish(Vec<(Vec<u8>, Vec<u8>)>),
    /// tombstone `label` up to `cut` (the arm only generates cuts before the label's latest update)
    Tombstone { label: Vec<u8>, cut: u64 },
    AdvanceClock(u64),
    /// drop the directory (and manager, cache) and re-create it over the same storage
    Restart,
}

#[derive(Clone, Debug, Serialize, Deserialize, Default)]
pub struct Checks {
    pub c01: bool,
    pub c02: bool,
    pub c03: bool,
    pub c04: bool,
    pub c20: bool,
    /// check after an epoch with probability 1/every (1 = always); the final epoch is always checked
    pub every: u32,
    /// serve reads through a ReadOnlyDirectory over the same manager
    pub read_only: bool,
    /// number of seeded audit pairs per checked epoch (0 = all pairs)
    pub audit_pairs: u32,
}

#[derive(Clone, Debug, Serialize, Deserialize)]
pub struct HistSpec {
    pub cfg: Cfg,
    pub par_insert: u32,
    pub par_preload: u32,
    pub cache: CacheSpec,
    pub policy: Policy,
    pub h2_mask: u16,
    pub universe: Vec<Vec<u8>>,
    pub ops: Vec<Op>,
    pub checks: Checks,
    /// seed for the check-sampling decisions (which epochs, which audit pairs, which batches)
    pub check_seed: u64,
}

pub fn par_opt(n: u32) -> AzksParallelismOption {
    match n {
        0 => AzksParallelismOption::Disabled,
        u32::MAX => AzksParallelismOption::AvailableOr(32),
        n => AzksParallelismOption::Static(n),
    }
}

pub fn make_manager(db: SimDb, cache: &CacheSpec) -> StorageManager<SimDb> {
    match cache {
        CacheSpec::None => StorageManager::new_no_cache(db),
        CacheSpec::Default => StorageManager::new(db, None, None, None),
        CacheSpec::Custom { lifetime_ms, limit_bytes, clean_ms } => StorageManager::new(
            db,
            Some(Duration::from_millis(*lifetime_ms)),
            *limit_bytes,
            Some(Duration::from_millis(*clean_ms)),
        ),
    }
}

/// label pool with awkward shapes
pub fn label_pool(rng: &mut Rng, n: usize) -> Vec<Vec<u8>> {
    let mut pool: Vec<Vec<u8>> = vec![
        b"".to_vec(),
        b"a".to_vec(),
        b"ab".to_vec(),
        b"abc".to_vec(),
        vec![0xff, 0xfe, 0x00],
        vec![0u8],
        b"user@example.com".to_vec(),
        vec![b'x'; 4096],
    ];
    while pool.len() < 24 {
        let len = rng.range(1, 40) as usize;
        let cand = rng.bytes(len);
        // labels of a universe are pairwise distinct (a repeated label inside one batch is generated on purpose elsewhere)
        if !pool.contains(&cand) {
            pool.push(cand);
        }
    }
    rng.shuffle(&mut pool);
    pool.truncate(n.max(1));
    pool
}

pub fn gen_value(rng: &mut Rng, unique: &mut u64) -> Vec<u8> {
    *unique += 1;
    match rng.below(20) {
        0 => vec![],                  // empty value: equals the TOMBSTONE byte string
        1 => vec![b'v'; 4096],        // long, repeated across labels
        2 => b"same".to_vec(),        // repeated across labels and versions
        _ => format!("v{}-{}", unique, rng.below(1000)).into_bytes(),
    }
}

pub struct GenProfile {
    pub max_labels: u64,
    pub max_epochs: u64,
    pub max_batch: u64,
    pub tombstones: bool,
    pub restarts: bool,
    pub clock: bool,
}

pub fn gen_ops(rng: &mut Rng, universe: &[Vec<u8>], prof: &GenProfile) -> Vec<Op> {
    let epochs = rng.range(1, prof.max_epochs);
    let mut ops = vec![];
    let mut unique = 0u64;
    // a shadow of "latest value / latest epoch per label" so that re-submissions and tombstone cuts can be generated
    let mut latest: std::collections::BTreeMap<Vec<u8>, (Vec<u8>, u64)> = Default::default();
    let mut epoch = 0u64;
    // one label is updated (almost) every epoch so that versions sweep through powers of two
    let hot = universe[rng.below(universe.len() as u64) as usize].clone();
    for _ in 0..epochs {
        let mut batch: Vec<(Vec<u8>, Vec<u8>)> = vec![];
        let kind = rng.below(20);
        if kind == 0 {
            // empty batch
        } else if kind == 1 && !latest.is_empty() {
            // pure re-submission of current values (no-op)
            for (l, (v, _)) in latest.iter().take(rng.range(1, 3) as usize) {
                batch.push((l.clone(), v.clone()));
            }
        } else {
            let n = rng.range(1, prof.max_batch.min(universe.len() as u64));
            let mut idx: Vec<usize> = (0..universe.len()).collect();
            rng.shuffle(&mut idx);
            for i in idx.into_iter().take(n as usize) {
                let l = universe[i].clone();
                let v = match latest.get(&l) {
                    Some((cur, _)) if rng.chance(1, 8) => cur.clone(), // re-submit unchanged among changes
                    _ => gen_value(rng, &mut unique),
                };
                batch.push((l, v));
            }
            if rng.chance(9, 10) && !batch.iter().any(|(l, _)| *l == hot) {
                batch.push((hot.clone(), gen_value(rng, &mut unique)));
            }
            if kind == 2 && !batch.is_empty() {
                // batch repeating a label: must be rejected
                let dup = batch[rng.below(batch.len() as u64) as usize].clone();
                batch.push((dup.0, gen_value(rng, &mut unique)));
            }
        }
        // track
        let mut seen = std::collections::BTreeSet::new();
        let dup = batch.iter().any(|(l, _)| !seen.insert(l.clone()));
        if !dup {
            let changes = batch.iter().any(|(l, v)| latest.get(l).map(|(c, _)| c != v).unwrap_or(true));
            if changes {
                epoch += 1;
                for (l, v) in &batch {
                    if latest.get(l).map(|(c, _)| c != v).unwrap_or(true) {
                        latest.insert(l.clone(), (v.clone(), epoch));
                    }
                }
            }
        }
        ops.push(Op::Publish(batch));
        if prof.tombstones && epoch >= 2 && rng.chance(1, 3) {
            // choose a label with latest update epoch >= 2 and a cut strictly before it
            let cands: Vec<(&Vec<u8>, u64)> = latest.iter().filter(|(_, (_, e))| *e >= 2).map(|(l, (_, e))| (l, *e)).collect();
            if !cands.is_empty() {
                let (l, e) = cands[rng.below(cands.len() as u64) as usize];
                let cut = rng.range(1, e - 1);
                ops.push(Op::Tombstone { label: l.clone(), cut });
            }
        }
        if prof.clock && rng.chance(1, 4) {
            ops.push(Op::AdvanceClock(*rng.pick(&[1, 2, 3, 29_999, 30_000, 30_001, 15_001, 300_000])));
        }
        if prof.restarts && rng.chance(1, 6) {
            ops.push(Op::Restart);
        }
    }
    ops
}

pub fn gen_policy(rng: &mut Rng) -> Policy {
    match rng.below(4) {
        0 => Policy::Uniform,
        1 => Policy::Sticky(*rng.pick(&[50, 80, 95])),
        2 => Policy::Fifo(*rng.pick(&[0, 5, 20])),
        _ => Policy::Lifo(*rng.pick(&[0, 5, 20])),
    }
}

pub fn gen_cache(rng: &mut Rng) -> CacheSpec {
    match rng.below(5) {
        0 | 1 => CacheSpec::None,
        2 => CacheSpec::Default,
        3 => CacheSpec::Custom { lifetime_ms: *rng.pick(&[2, 5, 50]), limit_bytes: None, clean_ms: *rng.pick(&[2, 10]) },
        _ => CacheSpec::Custom { lifetime_ms: *rng.pick(&[2, 30_000]), limit_bytes: Some(*rng.pick(&[300, 2000, 20_000])), clean_ms: 2 },
    }
}

pub fn gen_hist_spec(rng: &mut Rng, prof: &GenProfile, checks: Checks) -> HistSpec {
    let n = rng.range(1, prof.max_labels) as usize;
    let universe = label_pool(rng, n);
    let ops = gen_ops(rng, &universe, prof);
    HistSpec {
        cfg: if rng.chance(1, 2) { Cfg::WhatsApp } else { Cfg::Experimental },
        par_insert: *rng.pick(&[0, 0, 1, 2, 4, 32]),
        par_preload: *rng.pick(&[0, 0, 1, 2, 4, 32]),
        cache: gen_cache(rng),
        policy: gen_policy(rng),
        h2_mask: if rng.chance(1, 3) { (rng.next_u64() & 0x7ff) as u16 } else { 0 },
        universe,
        ops,
        checks,
        check_seed: rng.next_u64(),
    }
}

/// A history with LARGE batches (hundreds to thousands of entries in one publish): sizes around powers of two
/// from 2^7 to 2^11 and a few in between, one batch of inserts, one mixing updates (two node labels each), unchanged
/// re-submissions and inserts, and a small one afterwards.
pub fn gen_big_hist_spec(rng: &mut Rng, checks: Checks) -> HistSpec {
    let e = rng.range(7, 11);
    let base = 1u64 << e;
    let n = match rng.below(6) {
        0 => base - 1,
        1 => base,
        2 => base + 1,
        3 => base + rng.range(2, 40),
        _ => base + rng.below(base / 2),
    } as usize;
    let extra = rng.range(1, (n as u64 / 4).max(2)) as usize;
    let universe: Vec<Vec<u8>> = (0..n + extra).map(|i| format!("u{i:05}").into_bytes()).collect();
    let mut ops = vec![];
    let first: Vec<(Vec<u8>, Vec<u8>)> = universe[..n].iter().map(|l| (l.clone(), [b"a-", l.as_slice()].concat())).collect();
    ops.push(Op::Publish(first));
    if rng.chance(1, 3) {
        ops.push(Op::Restart);
    }
    // second batch: a share of updates, a share of unchanged re-submissions, all the remaining labels as inserts
    let upd = rng.range(1, n as u64) as usize;
    let same = rng.below((n - upd) as u64 + 1) as usize;
    let mut second: Vec<(Vec<u8>, Vec<u8>)> = vec![];
    for l in &universe[..upd] {
        second.push((l.clone(), [b"b-", l.as_slice()].concat()));
    }
    for l in &universe[upd..upd + same] {
        second.push((l.clone(), [b"a-", l.as_slice()].concat()));
    }
    for l in &universe[n..] {
        second.push((l.clone(), [b"a-", l.as_slice()].concat()));
    }
    rng.shuffle(&mut second);
    ops.push(Op::Publish(second));
    let k = rng.range(1, 5) as usize;
    ops.push(Op::Publish(universe[..k].iter().map(|l| (l.clone(), [b"c-", l.as_slice()].concat())).collect()));
    HistSpec {
        cfg: if rng.chance(1, 2) { Cfg::WhatsApp } else { Cfg::Experimental },
        par_insert: *rng.pick(&[0, 2, 4, 32]),
        par_preload: *rng.pick(&[0, 2, 32]),
        cache: if rng.chance(1, 2) { CacheSpec::None } else { CacheSpec::Default },
        policy: Policy::Fifo(0),
        h2_mask: 0,
        universe,
        ops,
        checks,
        check_seed: rng.next_u64(),
    }
}

pub fn shrink_hist(spec: &Value) -> Vec<Value> {
    let mut out = crate::harness::drop_candidates(spec, &["ops"]);
    // shrink individual publish batches
    if let Some(ops) = spec.get("ops").and_then(|o| o.as_array()) {
        for (i, op) in ops.iter().enumerate() {
            if let Some(b) = op.get("Publish").and_then(|b| b.as_array()) {
                if b.len() > 16 {
                    // large batches: drop halves / quarters / eighths first
                    for parts in [2usize, 4, 8] {
                        let step = b.len() / parts;
                        for k in 0..parts {
                            let mut c = spec.clone();
                            let arr = c["ops"][i]["Publish"].as_array_mut().unwrap();
                            arr.drain(k * step..((k + 1) * step).min(b.len()));
                            out.push(c);
                        }
                    }
                }
                if b.len() > 1 && b.len() <= 64 {
                    for j in 0..b.len() {
                        let mut c = spec.clone();
                        c["ops"][i]["Publish"].as_array_mut().unwrap().remove(j);
                        out.push(c);
                    }
                }
            }
        }
    }
    // simpler configuration
    for (k, v) in [("par_insert", json!(0)), ("par_preload", json!(0)), ("h2_mask", json!(0)), ("cache", json!("None")), ("policy", json!({"Fifo": 0}))] {
        if spec.get(k) != Some(&v) {
            let mut c = spec.clone();
            c[k] = v;
            out.push(c);
        }
    }
    out
}

fn eq_hash(eh: &EpochHash, e: u64, h: &[u8; 32]) -> bool {
    eh.0 == e && &eh.1 == h
}

type Dir<TC> = Directory<TC, SimDb, SimVrf>;

pub enum Reader<TC: akd::Configuration> {
    Rw(Dir<TC>),
    Ro(ReadOnlyDirectory<TC, SimDb, SimVrf>),
}

impl<TC: akd::Configuration> Reader<TC> {
    pub async fn lookup(&self, l: AkdLabel) -> Result<(akd::LookupProof, EpochHash), akd::errors::AkdError> {
        match self {
            Reader::Rw(d) => d.lookup(l).await,
            Reader::Ro(d) => d.lookup(l).await,
        }
    }
    pub async fn batch_lookup(&self, l: &[AkdLabel]) -> Result<(Vec<akd::LookupProof>, EpochHash), akd::errors::AkdError> {
        match self {
            Reader::Rw(d) => d.batch_lookup(l).await,
            Reader::Ro(d) => d.batch_lookup(l).await,
        }
    }
    pub async fn key_history(&self, l: &AkdLabel, p: HistoryParams) -> Result<(akd::HistoryProof, EpochHash), akd::errors::AkdError> {
        match self {
            Reader::Rw(d) => d.key_history(l, p).await,
            Reader::Ro(d) => d.key_history(l, p).await,
        }
    }
    pub async fn audit(&self, s: u64, e: u64) -> Result<akd::AppendOnlyProof, akd::errors::AkdError> {
        match self {
            Reader::Rw(d) => d.audit(s, e).await,
            Reader::Ro(d) => d.audit(s, e).await,
        }
    }
    pub async fn get_epoch_hash(&self) -> Result<EpochHash, akd::errors::AkdError> {
        match self {
            Reader::Rw(d) => d.get_epoch_hash().await,
            Reader::Ro(d) => d.get_epoch_hash().await,
        }
    }
}

/// Shared per-run observations, filled by the root actor and read back after the run.
#[derive(Default)]
pub struct Obs {
    pub violations: Vec<Violation>,
    pub checks: u64,
    pub probes: Vec<(&'static str, u64)>,
    pub states: Vec<u64>,
    pub updates: u64,
    pub inserts_after_first: u64,
    pub noops: u64,
    pub rejected: u64,
    pub epochs: u64,
    pub harness_error: Option<String>,
}

impl Obs {
    pub fn v(&mut self, class: &str, detail: String) {
        if self.violations.len() < 8 {
            self.violations.push(Violation::new(class, detail));
        }
    }
    pub fn p(&mut self, name: &'static str) {
        match self.probes.iter_mut().find(|(n, _)| *n == name) {
            Some((_, c)) => *c += 1,
            None => self.probes.push((name, 1)),
        }
    }
}

pub fn hparams_for(k: usize, rng: &mut Rng, all: bool) -> Vec<Option<usize>> {
    // None = Complete
    let mut v = vec![None, Some(1), Some(2), Some(k.saturating_sub(1).max(1)), Some(k), Some(k + 1), Some(1000)];
    v.dedup();
    if !all {
        // Complete plus two seeded others
        let mut rest: Vec<Option<usize>> = v[1..].to_vec();
        rng.shuffle(&mut rest);
        rest.truncate(2);
        v = vec![None];
        v.extend(rest);
    }
    v
}

pub fn to_hp(p: Option<usize>) -> HistoryParams {
    match p {
        None => HistoryParams::Complete,
        Some(n) => HistoryParams::MostRecent(n),
    }
}

/// All read-side oracles at the current epoch.
#[allow(clippy::too_many_arguments)]
pub async fn check_reads<TC: ModelCfg>(
    reader: &Reader<TC>,
    model: &Model,
    universe: &[Vec<u8>],
    checks: &Checks,
    crng: &mut Rng,
    obs: &mut Obs,
    pk: &[u8],
    thorough_params: bool,
) {
    let (me, mh) = model.current();
    // ---------- C02: lookups ----------
    if checks.c02 {
        let mut single: std::collections::BTreeMap<Vec<u8>, akd::VerifyResult> = Default::default();
        for l in universe {
            let res = reader.lookup(AkdLabel(l.clone())).await;
            obs.checks += 1;
            match (model.latest(l), res) {
                (None, Ok(_)) => obs.v("c02_unpublished_lookup_ok", format!("lookup of never-published label {} returned a proof", hex::encode(l))),
                (None, Err(_)) => obs.p("lookup_unpublished_refused"),
                (Some(_), Err(e)) => obs.v("c02_lookup_err", format!("lookup of published label {} failed at epoch {me}: {e}", hex::encode(l))),
                (Some(want), Ok((proof, eh))) => {
                    if !eq_hash(&eh, me, &mh) {
                        obs.v("c02_lookup_epoch_hash", format!("lookup returned epoch hash ({}, {}) but directory is at ({me}, {})", eh.0, hex::encode(eh.1), hex::encode(mh)));
                    }
                    let proof = match wire::send_lookup(&proof) {
                        Ok(p) => p,
                        Err(e) => {
                            obs.v("c19_roundtrip_lookup", format!("{e:?}"));
                            continue;
                        }
                    };
                    match akd::client::lookup_verify::<TC>(pk, eh.1, eh.0, AkdLabel(l.clone()), proof) {
                        Err(e) => obs.v("c02_lookup_not_verifying", format!("label {} epoch {me}: {e}", hex::encode(l))),
                        Ok(vr) => {
                            if vr.value.0 != want.value || vr.version != want.version || vr.epoch != want.epoch {
                                obs.v("c02_lookup_wrong_result", format!("label {}: got (v{}, e{}, {}) want (v{}, e{}, {})", hex::encode(l), vr.version, vr.epoch, hex::encode(&vr.value.0[..vr.value.0.len().min(16)]), want.version, want.epoch, hex::encode(&want.value[..want.value.len().min(16)])));
                            }
                            if want.version.is_power_of_two() && want.version > 1 {
                                obs.p("lookup_version_power_of_two");
                            }
                            if me - want.epoch >= 20 {
                                obs.p("lookup_untouched_20_epochs");
                            }
                            single.insert(l.clone(), vr);
                        }
                    }
                }
            }
        }
        // batch lookups over seeded subsets
        let published: Vec<Vec<u8>> = universe.iter().filter(|l| model.latest(l).is_some()).cloned().collect();
        if !published.is_empty() {
            for round in 0..2 {
                let mut subset: Vec<Vec<u8>> = if round == 0 {
                    published.clone()
                } else {
                    let n = crng.range(1, published.len() as u64) as usize;
                    let mut s = published.clone();
                    crng.shuffle(&mut s);
                    s.truncate(n);
                    if crng.chance(1, 3) {
                        let d = s[0].clone();
                        s.push(d); // duplicate label in a batch lookup
                    }
                    s
                };
                let include_unpublished = round == 1 && crng.chance(1, 4) && universe.len() > published.len();
                if include_unpublished {
                    let un = universe.iter().find(|l| model.latest(l).is_none()).unwrap().clone();
                    subset.push(un);
                }
                let labels: Vec<AkdLabel> = subset.iter().map(|l| AkdLabel(l.clone())).collect();
                let res = reader.batch_lookup(&labels).await;
                obs.checks += 1;
                match res {
                    Err(e) => {
                        if !include_unpublished {
                            obs.v("c02_batch_lookup_err", format!("batch lookup of published labels failed: {e}"));
                        } else {
                            obs.p("batch_lookup_with_unpublished_refused");
                        }
                    }
                    Ok((proofs, eh)) => {
                        if include_unpublished {
                            obs.v("c02_batch_unpublished_ok", "batch lookup containing a never-published label returned proofs".to_string());
                            continue;
                        }
                        if !eq_hash(&eh, me, &mh) || proofs.len() != labels.len() {
                            obs.v("c02_batch_epoch_hash", format!("batch lookup returned ({}, ..) / {} proofs for {} labels at epoch {me}", eh.0, proofs.len(), labels.len()));
                            continue;
                        }
                        for (l, p) in subset.iter().zip(proofs.into_iter()) {
                            match akd::client::lookup_verify::<TC>(pk, eh.1, eh.0, AkdLabel(l.clone()), p) {
                                Err(e) => obs.v("c02_batch_not_verifying", format!("label {}: {e}", hex::encode(l))),
                                Ok(vr) => {
                                    if single.get(l) != Some(&vr) {
                                        obs.v("c02_batch_differs_from_single", format!("label {}: batch {:?} single {:?}", hex::encode(l), (vr.version, vr.epoch), single.get(l).map(|s| (s.version, s.epoch))));
                                    }
                                }
                            }
                        }
                    }
                }
            }
        }
    }
    // ---------- C03 / C20: key history ----------
    if checks.c03 || checks.c20 {
        for l in universe {
            let k = model.users.get(l).map(|v| v.len()).unwrap_or(0);
            if k == 0 {
                let res = reader.key_history(&AkdLabel(l.clone()), HistoryParams::Complete).await;
                obs.checks += 1;
                if res.is_ok() {
                    obs.v("c03_unpublished_history_ok", format!("history of never-published label {} returned a proof", hex::encode(l)));
                }
                continue;
            }
            for hp in hparams_for(k, crng, thorough_params) {
                let res = reader.key_history(&AkdLabel(l.clone()), to_hp(hp)).await;
                obs.checks += 1;
                let want = model.history(l, hp).unwrap();
                match res {
                    Err(e) => obs.v("c03_history_err", format!("label {} {hp:?} epoch {me}: {e}", hex::encode(l))),
                    Ok((proof, eh)) => {
                        if !eq_hash(&eh, me, &mh) {
                            obs.v("c03_history_epoch_hash", format!("history returned ({}, {}) at ({me}, {})", eh.0, hex::encode(eh.1), hex::encode(mh)));
                        }
                        let proof = match wire::send_history(&proof) {
                            Ok(p) => p,
                            Err(e) => {
                                obs.v("c19_roundtrip_history", format!("{e:?}"));
                                continue;
                            }
                        };
                        let any_tomb = want.iter().any(|v| model.is_tombstoned(l, v.epoch));
                        // default verifier
                        let strict = akd::client::key_history_verify::<TC>(pk, eh.1, eh.0, AkdLabel(l.clone()), proof.clone(), HistoryVerificationParams::Default { history_params: to_hp(hp) });
                        match (&strict, any_tomb) {
                            (Ok(list), false) => {
                                let got: Vec<(u64, u64, Vec<u8>)> = list.iter().map(|r| (r.version, r.epoch, r.value.0.clone())).collect();
                                let exp: Vec<(u64, u64, Vec<u8>)> = want.iter().map(|v| (v.version, v.epoch, v.value.clone())).collect();
                                if got != exp {
                                    obs.v("c03_history_wrong_result", format!("label {} {hp:?}: got {:?} want {:?}", hex::encode(l), got.iter().map(|x| (x.0, x.1)).collect::<Vec<_>>(), exp.iter().map(|x| (x.0, x.1)).collect::<Vec<_>>()));
                                }
                                if k >= 3 {
                                    obs.p("history_three_or_more_versions");
                                }
                            }
                            (Err(e), false) => obs.v("c03_history_not_verifying", format!("label {} {hp:?} epoch {me}: {e}", hex::encode(l))),
                            (Ok(_), true) => obs.v("c20_strict_accepts_tombstoned", format!("label {} {hp:?}: default verifier accepted a history containing a tombstoned entry", hex::encode(l))),
                            (Err(_), true) => obs.p("strict_rejects_tombstoned_history"),
                        }
                        if checks.c20 {
                            let lax = akd::client::key_history_verify::<TC>(pk, eh.1, eh.0, AkdLabel(l.clone()), proof, HistoryVerificationParams::AllowMissingValues { history_params: to_hp(hp) });
                            obs.checks += 1;
                            match lax {
                                Err(e) => obs.v("c20_lax_not_verifying", format!("label {} {hp:?}: {e}", hex::encode(l))),
                                Ok(list) => {
                                    let got: Vec<(u64, u64, Vec<u8>)> = list.iter().map(|r| (r.version, r.epoch, r.value.0.clone())).collect();
                                    let exp: Vec<(u64, u64, Vec<u8>)> = want
                                        .iter()
                                        .map(|v| (v.version, v.epoch, if model.is_tombstoned(l, v.epoch) { vec![] } else { v.value.clone() }))
                                        .collect();
                                    if got != exp {
                                        obs.v("c20_lax_wrong_result", format!("label {} {hp:?}: got {:?} want {:?}", hex::encode(l), got.iter().map(|x| (x.0, x.1, x.2.len())).collect::<Vec<_>>(), exp.iter().map(|x| (x.0, x.1, x.2.len())).collect::<Vec<_>>()));
                                    }
                                    if any_tomb {
                                        obs.p("lax_history_with_tombstones_verified");
                                    }
                                }
                            }
                        }
                    }
                }
            }
        }
    }
    // ---------- C04: audits ----------
    if checks.c04 {
        let cur = me;
        // refusals
        for (s, e) in [(cur, cur), (cur + 1, cur), (0, cur + 1), (cur, cur + 2)] {
            obs.checks += 1;
            if reader.audit(s, e).await.is_ok() {
                obs.v("c04_bad_range_accepted", format!("audit({s},{e}) accepted at epoch {cur}"));
            }
        }
        let mut pairs: Vec<(u64, u64)> = vec![];
        if cur >= 1 {
            if checks.audit_pairs == 0 || cur <= 6 {
                for s in 0..cur {
                    for e in s + 1..=cur {
                        pairs.push((s, e));
                    }
                }
            } else {
                for s in 0..cur {
                    pairs.push((s, s + 1));
                }
                for e in 1..=cur {
                    pairs.push((0, e));
                }
                for _ in 0..checks.audit_pairs {
                    let s = crng.below(cur);
                    let e = crng.range(s + 1, cur);
                    pairs.push((s, e));
                }
                pairs.sort();
                pairs.dedup();
                // keep the cost bounded: seeded sample of at most 3*audit_pairs pairs, weighted to short ranges
                if pairs.len() > (checks.audit_pairs as usize) * 3 {
                    crng.shuffle(&mut pairs);
                    pairs.truncate(checks.audit_pairs as usize * 3);
                }
            }
        }
        for (s, e) in pairs {
            obs.checks += 1;
            match reader.audit(s, e).await {
                Err(err) => obs.v("c04_audit_err", format!("audit({s},{e}) at epoch {cur}: {err}")),
                Ok(proof) => {
                    let proof = match wire::send_audit(&proof) {
                        Ok(p) => p,
                        Err(e) => {
                            obs.v("c19_roundtrip_audit", format!("{e:?}"));
                            continue;
                        }
                    };
                    let hashes: Vec<[u8; 32]> = (s..=e).map(|i| model.hashes[i as usize]).collect();
                    // the per-epoch blob path (AuditBlob name + bytes) as well
                    match akd::local_auditing::generate_audit_blobs(hashes.clone(), proof.clone()) {
                        Err(err) => obs.v("c04_audit_blobs", format!("generate_audit_blobs({s},{e}): {err:?}")),
                        Ok(blobs) => {
                            for (i, b) in blobs.iter().enumerate() {
                                let name = b.name.to_string();
                                match akd::local_auditing::AuditBlobName::try_from(name.as_str()) {
                                    Err(err) => obs.v("c19_roundtrip_audit_blob", format!("blob name {name} of audit({s},{e}) does not parse: {err:?}")),
                                    Ok(n) => match (akd::local_auditing::AuditBlob { name: n, data: b.data.clone() }).decode() {
                                        Err(err) => obs.v("c19_roundtrip_audit_blob", format!("blob {i} of audit({s},{e}) does not decode: {err:?}")),
                                        Ok((ep, ph, ch, sp)) => {
                                            if n != b.name || ep != s + i as u64 || ph != hashes[i] || ch != hashes[i + 1] || sp != proof.proofs[i] {
                                                obs.v("c19_roundtrip_audit_blob", format!("blob {i} of audit({s},{e}) did not round-trip"));
                                            }
                                        }
                                    },
                                }
                            }
                        }
                    }
                    if let Err(err) = akd::auditor::audit_verify::<TC>(hashes, proof).await {
                        obs.v("c04_audit_not_verifying", format!("audit({s},{e}) at epoch {cur}: {err}"));
                    }
                    if e < cur {
                        obs.p("audit_range_ends_before_latest");
                    }
                    if e - s > 1 {
                        obs.p("audit_non_adjacent");
                    }
                }
            }
        }
    }
}

pub fn summarize(spec: &HistSpec) -> Value {
    let ops: Vec<Value> = spec
        .ops
        .iter()
        .take(12)
        .map(|op| match op {
            Op::Publish(b) => json!({"publish": b.iter().map(|(l, v)| format!("{}={}", short(l), short(v))).collect::<Vec<_>>()}),
            Op::Tombstone { label, cut } => json!({"tombstone": short(label), "cut": cut}),
            Op::AdvanceClock(ms) => json!({"advance_ms": ms}),
            Op::Restart => json!("restart"),
        })
        .collect();
    json!({
        "cfg": format!("{:?}", spec.cfg), "par_insert": spec.par_insert, "par_preload": spec.par_preload,
        "cache": format!("{:?}", spec.cache), "policy": format!("{:?}", spec.policy), "h2_mask": spec.h2_mask,
        "labels": spec.universe.len(), "n_ops": spec.ops.len(), "first_ops": ops
    })
}

pub fn short(b: &[u8]) -> String {
    if b.len() <= 10 {
        match std::str::from_utf8(b) {
            Ok(s) if s.chars().all(|c| c.is_ascii_graphic()) => format!("'{s}'"),
            _ => format!("0x{}", hex::encode(b)),
        }
    } else {
        format!("0x{}..({}B)", hex::encode(&b[..6]), b.len())
    }
}

async fn run_hist_t<TC: ModelCfg>(spec: HistSpec, tier_thorough: bool) -> Obs {
    let mut obs = Obs::default();
    let mut model = Model::new(TC::CFG);
    let store = SimStore::new();
    let vrf = SimVrf::default();
    let par = AzksParallelismConfig { insertion: par_opt(spec.par_insert), preload: par_opt(spec.par_preload) };
    let mut crng = Rng::new(spec.check_seed);
    let mut mgr = make_manager(store.handle(0), &spec.cache);
    let mut dir = match Dir::<TC>::new(mgr.clone(), vrf.clone(), par).await {
        Ok(d) => d,
        Err(e) => {
            obs.harness_error = Some(format!("Directory::new failed: {e}"));
            return obs;
        }
    };
    let pk = dir.get_public_key().await.unwrap().as_bytes().to_vec();
    if pk != model.vrf.pk_bytes() {
        obs.harness_error = Some("public key mismatch between model and directory".into());
        return obs;
    }
    let n_ops = spec.ops.len();
    for (i, op) in spec.ops.iter().enumerate() {
        let is_last = i + 1 == n_ops;
        match op {
            Op::Publish(batch) => {
                let before = store.digest();
                let (me0, mh0) = model.current();
                let oc = model.classify(batch);
                // statistics for the non-triviality rule
                for (l, v) in batch {
                    match model.latest(l) {
                        Some(x) if &x.value != v => obs.updates += 1,
                        None if model.epoch >= 1 => obs.inserts_after_first += 1,
                        _ => {}
                    }
                }
                let res = dir.publish(to_akd_batch(batch)).await;
                obs.checks += 1;
                let (_, me, mh) = model.publish(batch);
                if spec.checks.c01 {
                    match (&oc, &res) {
                        (PublishOutcome::Rejected, Ok(eh)) => obs.v("c01_duplicate_batch_accepted", format!("batch repeating a label returned Ok({})", eh.0)),
                        (PublishOutcome::Rejected, Err(_)) => {
                            obs.rejected += 1;
                            if store.digest() != before {
                                obs.v("c01_rejected_batch_had_effect", "storage changed although the batch was rejected".into());
                            }
                            if mgr.is_transaction_active() {
                                obs.v("c01_rejected_batch_left_transaction", "transaction left open after rejected batch".into());
                            }
                        }
                        (PublishOutcome::NoOp, Ok(eh)) => {
                            obs.noops += 1;
                            if !eq_hash(eh, me0, &mh0) {
                                obs.v("c01_noop_changed_epoch_hash", format!("no-op publish returned ({}, {}) expected ({me0}, {})", eh.0, hex::encode(eh.1), hex::encode(mh0)));
                            }
                            if store.digest() != before {
                                obs.v("c01_noop_changed_storage", "storage changed by a publish that re-submits current values only".into());
                            }
                        }
                        (PublishOutcome::Advanced, Ok(eh)) => {
                            obs.epochs += 1;
                            if eh.0 != me {
                                obs.v("c01_epoch_count", format!("publish returned epoch {} but {} publishes changed a value", eh.0, me));
                            } else if eh.1 != mh {
                                obs.v("c01_root_hash", format!("epoch {me}: directory root hash {} != canonical trie hash {} over {} leaves", hex::encode(eh.1), hex::encode(mh), model.leaves.len()));
                            }
                        }
                        (_, Err(e)) => obs.v("c01_publish_err", format!("fault-free publish failed: {e}")),
                    }
                    match dir.get_epoch_hash().await {
                        Ok(eh) if eq_hash(&eh, me, &mh) => {}
                        Ok(eh) => obs.v("c01_get_epoch_hash", format!("get_epoch_hash = ({}, {}) expected ({me}, {})", eh.0, hex::encode(eh.1), hex::encode(mh))),
                        Err(e) => obs.v("c01_get_epoch_hash_err", format!("{e}")),
                    }
                    obs.checks += 1;
                } else if let (PublishOutcome::Advanced, Err(e)) = (&oc, &res) {
                    // the other properties need the history to exist; a failing fault-free publish is C01's to report
                    obs.harness_error = Some(format!("fault-free publish failed (C01 territory): {e}"));
                    return obs;
                } else if oc == PublishOutcome::Advanced {
                    obs.epochs += 1;
                }
                obs.states.push(fp(&(me, mh)));
                let do_checks = oc == PublishOutcome::Advanced && (is_last || spec.checks.every <= 1 || crng.below(spec.checks.every as u64) == 0);
                if do_checks && (spec.checks.c02 || spec.checks.c03 || spec.checks.c04 || spec.checks.c20) {
                    let reader = if spec.checks.read_only {
                        match ReadOnlyDirectory::<TC, _, _>::new(mgr.clone(), vrf.clone(), par).await {
                            Ok(r) => Reader::Ro(r),
                            Err(e) => {
                                obs.v("readonly_open_failed", format!("{e}"));
                                Reader::Rw(dir.clone())
                            }
                        }
                    } else {
                        Reader::Rw(dir.clone())
                    };
                    check_reads::<TC>(&reader, &model, &spec.universe, &spec.checks, &mut crng, &mut obs, &pk, tier_thorough).await;
                }
            }
            Op::Tombstone { label, cut } => {
                let latest_epoch = model.latest(label).map(|v| v.epoch).unwrap_or(0);
                if *cut >= latest_epoch {
                    continue; // precondition of the statement not met (after shrinking): skip
                }
                let before_eh = dir.get_epoch_hash().await;
                if let Err(e) = mgr.tombstone_value_states(&AkdLabel(label.clone()), *cut).await {
                    obs.v("c20_tombstone_err", format!("{e}"));
                }
                model.tombstone(label, *cut);
                obs.p("tombstone_applied");
                if spec.checks.c20 {
                    let after_eh = dir.get_epoch_hash().await;
                    obs.checks += 1;
                    match (before_eh, after_eh) {
                        (Ok(a), Ok(b)) if a == b => {}
                        (a, b) => obs.v("c20_epoch_hash_changed", format!("{a:?} -> {b:?}")),
                    }
                    // everything the directory has committed to is re-checked right after tombstoning
                    let mut ch = spec.checks.clone();
                    ch.c02 = true;
                    ch.c03 = true;
                    ch.c04 = true;
                    ch.audit_pairs = 2;
                    check_reads::<TC>(&Reader::Rw(dir.clone()), &model, &spec.universe, &ch, &mut crng, &mut obs, &pk, false).await;
                }
            }
            Op::AdvanceClock(ms) => {
                tokio::time::advance(Duration::from_millis(*ms)).await;
                obs.p("clock_advanced");
            }
            Op::Restart => {
                drop(dir);
                mgr = make_manager(store.handle(0), &spec.cache);
                dir = match Dir::<TC>::new(mgr.clone(), vrf.clone(), par).await {
                    Ok(d) => d,
                    Err(e) => {
                        obs.v("restart_failed", format!("Directory::new over existing storage failed: {e}"));
                        return obs;
                    }
                };
                obs.p("restart");
            }
        }
    }
    for m in store.take_mismatches() {
        obs.v("memory_rs_disagrees_with_shadow", m);
    }
    obs
}

/// Run a history-arm spec; `filter` keeps only the violation classes the calling property owns.
pub fn run_hist(spec_v: &Value, chooser: &ChooserSpec, log: bool, tier_thorough: bool, owns: &dyn Fn(&str) -> bool) -> RunReport {
    let mut rep = RunReport::default();
    let spec: HistSpec = match serde_json::from_value(spec_v.clone()) {
        Ok(s) => s,
        Err(e) => {
            rep.harness_error = Some(format!("bad spec: {e}"));
            return rep;
        }
    };
    let simcfg = SimCfg { policy: spec.policy, h2_mask: spec.h2_mask, ..SimCfg::default() };
    let s2 = spec.clone();
    let result = match spec.cfg {
        Cfg::WhatsApp => sched::run_sim(simcfg, chooser, log, run_hist_t::<akd::WhatsAppV1Configuration>(s2, tier_thorough)),
        Cfg::Experimental => sched::run_sim(simcfg, chooser, log, run_hist_t::<akd::ExperimentalConfiguration<akd::ExampleLabel>>(s2, tier_thorough)),
    };
    if let Some(obs) = rep.absorb(result) {
        rep.checks = obs.checks;
        for (n, c) in &obs.probes {
            rep.probe_n(n, *c);
        }
        rep.states = obs.states.clone();
        if let Some(e) = obs.harness_error {
            rep.harness_error = Some(e);
        }
        for v in obs.violations {
            if owns(&v.class) {
                rep.violate(v);
            }
        }
        if obs.updates >= 1 && obs.inserts_after_first >= 1 {
            rep.nontrivial.push(fp(&serde_json::to_string(&spec.ops).unwrap()));
            rep.probe("run_with_update_and_later_insert");
        }
        if obs.noops > 0 {
            rep.probe_n("noop_publish", obs.noops);
        }
        if obs.rejected > 0 {
            rep.probe_n("duplicate_label_batch_rejected", obs.rejected);
        }
        rep.probe_n("epochs_published", obs.epochs);
    }
    rep.sample = Some(summarize(&spec));
    rep
}

pub fn tier_is_thorough(t: Tier) -> bool {
    t == Tier::Thorough
}
