//! Assembly of lookup / history answers by a server that holds the VRF key and the tree.
//! Everything is built from real nodes (TreeView), real VRF proofs and real commitment
//! nonces; what is dishonest is *which* parts are put together.

use crate::byz::TreeView;
use crate::model::{futures_now, SimVrf};
use akd::ecvrf::VRFKeyStorage;
use akd::{AkdLabel, AkdValue, Configuration, HistoryProof, LookupProof, MembershipProof, NodeLabel, NonMembershipProof, UpdateProof, VersionFreshness};
use std::collections::HashMap;
use std::marker::PhantomData;

pub struct Forge<'a, TC: Configuration> {
    pub view: &'a TreeView,
    pub vrf: SimVrf,
    pub ckey: [u8; 32],
    cache: HashMap<(Vec<u8>, bool, u64), (Vec<u8>, NodeLabel)>,
    _tc: PhantomData<TC>,
}

pub fn marker_version(v: u64) -> u64 {
    1u64 << (63 - v.leading_zeros())
}

impl<'a, TC: Configuration> Forge<'a, TC> {
    pub fn new(view: &'a TreeView, vrf: SimVrf) -> Self {
        let ckey = TC::hash(&vrf.0);
        Forge { view, vrf, ckey, cache: HashMap::new(), _tc: PhantomData }
    }

    /// (VRF proof bytes, node label) for (label, freshness, version)
    pub fn vrf(&mut self, label: &[u8], fresh: bool, version: u64) -> (Vec<u8>, NodeLabel) {
        if let Some(x) = self.cache.get(&(label.to_vec(), fresh, version)) {
            return x.clone();
        }
        let f = if fresh { VersionFreshness::Fresh } else { VersionFreshness::Stale };
        let proof = futures_now(self.vrf.get_label_proof::<TC>(&AkdLabel(label.to_vec()), f, version)).expect("vrf proof");
        let bytes = proof.to_bytes().to_vec();
        let nl = futures_now(self.vrf.get_node_label_from_vrf_proof(proof));
        self.cache.insert((label.to_vec(), fresh, version), (bytes.clone(), nl));
        (bytes, nl)
    }

    pub fn present(&mut self, label: &[u8], fresh: bool, version: u64) -> bool {
        let (_, nl) = self.vrf(label, fresh, version);
        self.view.contains_leaf(&nl)
    }

    /// real membership proof of a leaf, if it is in the tree
    pub fn membership(&self, nl: &NodeLabel) -> Option<MembershipProof> {
        let n = self.view.get(nl)?;
        Some(self.view.membership_of::<TC>(n))
    }

    /// the honest non-membership proof (deepest matching node), if the leaf is absent
    pub fn nonmembership(&self, nl: &NodeLabel) -> Option<NonMembershipProof> {
        if self.view.contains_leaf(nl) {
            return None;
        }
        let path = self.view.path_to(nl);
        let deepest = *path.last().unwrap();
        Some(self.view.nonmembership_at::<TC>(*nl, deepest))
    }

    /// every non-membership claim for `nl` a server can anchor at a real ancestor
    pub fn nonmembership_candidates(&self, nl: &NodeLabel) -> Vec<NonMembershipProof> {
        self.view
            .path_to(nl)
            .into_iter()
            .filter(|n| n.node_type != akd::tree_node::TreeNodeType::Leaf)
            .map(|n| self.view.nonmembership_at::<TC>(*nl, n))
            .collect()
    }

    pub fn nonce(&mut self, label: &[u8], version: u64, value: &[u8]) -> Vec<u8> {
        let (_, nl) = self.vrf(label, true, version);
        TC::get_commitment_nonce(&self.ckey, &nl, version, &AkdValue(value.to_vec())).to_vec()
    }

    /// a lookup answer for `version` of `label` with the given freshness proof
    pub fn lookup_with(&mut self, label: &[u8], version: u64, value: &[u8], epoch: u64, freshness: NonMembershipProof) -> Option<LookupProof> {
        let (ev, el) = self.vrf(label, true, version);
        let (mv, ml) = self.vrf(label, true, marker_version(version));
        let (fv, _fl) = self.vrf(label, false, version);
        Some(LookupProof {
            epoch,
            value: AkdValue(value.to_vec()),
            version,
            existence_vrf_proof: ev,
            existence_proof: self.membership(&el)?,
            marker_vrf_proof: mv,
            marker_proof: self.membership(&ml)?,
            freshness_vrf_proof: fv,
            freshness_proof: freshness,
            commitment_nonce: self.nonce(label, version, value),
        })
    }

    /// the lookup answer an honest-looking server gives for `version`, if the tree supports it
    /// (fresh(version) and its marker present, stale(version) absent)
    pub fn lookup(&mut self, label: &[u8], version: u64, value: &[u8], epoch: u64) -> Option<LookupProof> {
        let (_, sl) = self.vrf(label, false, version);
        let fr = self.nonmembership(&sl)?;
        self.lookup_with(label, version, value, epoch, fr)
    }

    pub fn update_proof(&mut self, label: &[u8], version: u64, value: &[u8], epoch: u64) -> Option<UpdateProof> {
        let (ev, el) = self.vrf(label, true, version);
        let existence_proof = self.membership(&el)?;
        let (pv, pp) = if version > 1 {
            let (sv, sl) = self.vrf(label, false, version - 1);
            (Some(sv), Some(self.membership(&sl)?))
        } else {
            (None, None)
        };
        Some(UpdateProof {
            epoch,
            version,
            value: AkdValue(value.to_vec()),
            existence_vrf_proof: ev,
            existence_proof,
            previous_version_vrf_proof: pv,
            previous_version_proof: pp,
            commitment_nonce: self.nonce(label, version, value),
        })
    }

    /// like `update_proof`, but when the previous version was never retired in the tree the server simply
    /// leaves the previous-version part out (the second value says whether it did)
    pub fn update_proof_omitting(&mut self, label: &[u8], version: u64, value: &[u8], epoch: u64) -> Option<(UpdateProof, bool)> {
        if let Some(p) = self.update_proof(label, version, value, epoch) {
            return Some((p, false));
        }
        let (ev, el) = self.vrf(label, true, version);
        let existence_proof = self.membership(&el)?;
        Some((
            UpdateProof {
                epoch,
                version,
                value: AkdValue(value.to_vec()),
                existence_vrf_proof: ev,
                existence_proof,
                previous_version_vrf_proof: None,
                previous_version_proof: None,
                commitment_nonce: self.nonce(label, version, value),
            },
            true,
        ))
    }

    /// a history answer for `entries` in which every part the tree cannot support is left out instead:
    /// previous-version parts of versions whose predecessor was never retired, past markers that are absent,
    /// future markers that are present. None if nothing had to be left out (then `history` says it all) or
    /// if a claimed version itself is not in the tree.
    pub fn history_omitting(&mut self, label: &[u8], entries: &[(u64, Vec<u8>, u64)], current_epoch: u64) -> Option<HistoryProof> {
        let mut omitted = false;
        let mut update_proofs = vec![];
        for (v, val, e) in entries {
            let (p, o) = self.update_proof_omitting(label, *v, val, *e)?;
            omitted |= o;
            update_proofs.push(p);
        }
        let start = entries.iter().map(|e| e.0).min()?;
        let end = entries.iter().map(|e| e.0).max()?;
        if start == 0 || end > current_epoch {
            return None;
        }
        let (past, future) = akd_core::utils::get_marker_versions(start, end, current_epoch);
        let mut past_marker_vrf_proofs = vec![];
        let mut existence_of_past_marker_proofs = vec![];
        for v in past {
            let (pv, pl) = self.vrf(label, true, v);
            match self.membership(&pl) {
                Some(m) => {
                    past_marker_vrf_proofs.push(pv);
                    existence_of_past_marker_proofs.push(m);
                }
                None => omitted = true,
            }
        }
        let mut future_marker_vrf_proofs = vec![];
        let mut non_existence_of_future_marker_proofs = vec![];
        for v in future {
            let (fv, fl) = self.vrf(label, true, v);
            match self.nonmembership(&fl) {
                Some(m) => {
                    future_marker_vrf_proofs.push(fv);
                    non_existence_of_future_marker_proofs.push(m);
                }
                None => omitted = true,
            }
        }
        if !omitted {
            return None;
        }
        Some(HistoryProof { update_proofs, past_marker_vrf_proofs, existence_of_past_marker_proofs, future_marker_vrf_proofs, non_existence_of_future_marker_proofs })
    }

    /// a history answer claiming the versions `entries` (newest first: (version, value, epoch)),
    /// with the marker proofs the verifier will ask for at `current_epoch`; None if the tree
    /// does not support an honest-looking assembly
    pub fn history(&mut self, label: &[u8], entries: &[(u64, Vec<u8>, u64)], current_epoch: u64) -> Option<HistoryProof> {
        let mut update_proofs = vec![];
        for (v, val, e) in entries {
            update_proofs.push(self.update_proof(label, *v, val, *e)?);
        }
        let start = entries.iter().map(|e| e.0).min()?;
        let end = entries.iter().map(|e| e.0).max()?;
        if start == 0 || end > current_epoch {
            return None;
        }
        let (past, future) = akd_core::utils::get_marker_versions(start, end, current_epoch);
        let mut past_marker_vrf_proofs = vec![];
        let mut existence_of_past_marker_proofs = vec![];
        for v in past {
            let (pv, pl) = self.vrf(label, true, v);
            past_marker_vrf_proofs.push(pv);
            existence_of_past_marker_proofs.push(self.membership(&pl)?);
        }
        let mut future_marker_vrf_proofs = vec![];
        let mut non_existence_of_future_marker_proofs = vec![];
        for v in future {
            let (fv, fl) = self.vrf(label, true, v);
            future_marker_vrf_proofs.push(fv);
            non_existence_of_future_marker_proofs.push(self.nonmembership(&fl)?);
        }
        Some(HistoryProof { update_proofs, past_marker_vrf_proofs, existence_of_past_marker_proofs, future_marker_vrf_proofs, non_existence_of_future_marker_proofs })
    }
}
