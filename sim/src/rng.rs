//! One integer decides everything: xoshiro256** seeded through splitmix64, plus the
//! `Chooser` through which every *run-time* decision (schedule pick, fault coin, clock
//! jump) is drawn, recorded, and — in replay — read back.

use serde::{Deserialize, Serialize};

#[derive(Clone, Debug)]
pub struct Rng {
    s: [u64; 4],
}

pub fn splitmix64(x: &mut u64) -> u64 {
    *x = x.wrapping_add(0x9E3779B97F4A7C15);
    let mut z = *x;
    z = (z ^ (z >> 30)).wrapping_mul(0xBF58476D1CE4E5B9);
    z = (z ^ (z >> 27)).wrapping_mul(0x94D049BB133111EB);
    z ^ (z >> 31)
}

/// Mix several integers into one seed (used to derive run seeds from VERIF_SEED)
pub fn mix(parts: &[u64]) -> u64 {
    let mut acc = 0x243F6A8885A308D3u64;
    for p in parts {
        let mut x = acc ^ p.wrapping_mul(0xD6E8FEB86659FD93);
        acc = splitmix64(&mut x);
    }
    acc
}

impl Rng {
    pub fn new(seed: u64) -> Self {
        let mut x = seed;
        let s = [
            splitmix64(&mut x),
            splitmix64(&mut x),
            splitmix64(&mut x),
            splitmix64(&mut x),
        ];
        Rng { s }
    }
    pub fn next_u64(&mut self) -> u64 {
        let result = self.s[1].wrapping_mul(5).rotate_left(7).wrapping_mul(9);
        let t = self.s[1] << 17;
        self.s[2] ^= self.s[0];
        self.s[3] ^= self.s[1];
        self.s[1] ^= self.s[2];
        self.s[0] ^= self.s[3];
        self.s[2] ^= t;
        self.s[3] = self.s[3].rotate_left(45);
        result
    }
    /// uniform in 0..n (n >= 1)
    pub fn below(&mut self, n: u64) -> u64 {
        debug_assert!(n >= 1);
        if n <= 1 {
            return 0;
        }
        // rejection-free multiply-shift is fine for our purposes
        ((self.next_u64() as u128 * n as u128) >> 64) as u64
    }
    pub fn range(&mut self, lo: u64, hi_incl: u64) -> u64 {
        lo + self.below(hi_incl - lo + 1)
    }
    pub fn chance(&mut self, num: u64, den: u64) -> bool {
        self.below(den) < num
    }
    pub fn pick<'a, T>(&mut self, xs: &'a [T]) -> &'a T {
        &xs[self.below(xs.len() as u64) as usize]
    }
    pub fn shuffle<T>(&mut self, xs: &mut [T]) {
        for i in (1..xs.len()).rev() {
            let j = self.below(i as u64 + 1) as usize;
            xs.swap(i, j);
        }
    }
    pub fn bytes(&mut self, n: usize) -> Vec<u8> {
        let mut v = Vec::with_capacity(n);
        while v.len() < n {
            let x = self.next_u64().to_le_bytes();
            let take = (n - v.len()).min(8);
            v.extend_from_slice(&x[..take]);
        }
        v
    }
    pub fn fork(&mut self, tag: u64) -> Rng {
        Rng::new(mix(&[self.next_u64(), tag]))
    }
}

/// How run-time decisions are produced.
#[derive(Clone, Debug, Serialize, Deserialize)]
pub enum ChooserSpec {
    /// draw from a PRNG
    Seeded(u64),
    /// read recorded raw values; after the end of the list every choice is 0
    Trace(Vec<u32>),
}

pub struct Chooser {
    rng: Option<Rng>,
    trace: Vec<u32>,
    pos: usize,
    /// every value handed out, in order (the decision trace of this run)
    pub record: Vec<u32>,
}

impl Chooser {
    pub fn new(spec: &ChooserSpec) -> Self {
        match spec {
            ChooserSpec::Seeded(s) => Chooser {
                rng: Some(Rng::new(*s)),
                trace: vec![],
                pos: 0,
                record: vec![],
            },
            ChooserSpec::Trace(t) => Chooser {
                rng: None,
                trace: t.clone(),
                pos: 0,
                record: vec![],
            },
        }
    }
    /// a value in 0..bound (bound >= 1)
    pub fn choose(&mut self, bound: u32) -> u32 {
        let v = match &mut self.rng {
            Some(r) => r.below(bound.max(1) as u64) as u32,
            None => {
                let raw = self.trace.get(self.pos).copied().unwrap_or(0);
                self.pos += 1;
                raw % bound.max(1)
            }
        };
        self.record.push(v);
        v
    }
    pub fn chance(&mut self, permille: u32) -> bool {
        if permille == 0 {
            return false;
        }
        self.choose(1000) < permille
    }
}

/// deterministic 64-bit hash (SipHash with zero keys) used for fingerprints
pub fn fp<T: std::hash::Hash>(t: &T) -> u64 {
    use std::hash::Hasher;
    #[allow(deprecated)]
    let mut h = std::hash::SipHasher::new();
    t.hash(&mut h);
    h.finish()
}

pub fn fp_bytes(b: &[u8]) -> u64 {
    fp(&b)
}
