#!/bin/bash
# evidence and replays of runs against a changed tree go to a scratch directory, never to /verif/evidence
export VERIF_DIR=/tmp/verif_scratch_out; mkdir -p $VERIF_DIR; cp /verif/known_findings.json $VERIF_DIR/; ln -sfn /verif/sim $VERIF_DIR/sim
# usage: tools/matrix.sh <seeded-id>... : each seeded change against every claimed check (quick tier); results in seeded/<id>/matrix.txt
cd /verif
IDS=$(python3 -c "import json;print(' '.join(c['property_id'] for c in json.load(open('MANIFEST.json'))['checks']))")
for m in "$@"; do
  cd /repo && git diff --quiet || { echo "/repo dirty, abort"; exit 2; }
  git -C /repo apply /verif/seeded/$m/patch.diff || { echo "$m: patch does not apply"; continue; }
  : > /verif/seeded/$m/matrix.txt
  for p in $IDS; do
    cd /verif && ./check $p quick > /tmp/matrix_$p.log 2>&1; rc=$?
    cls=$(grep -E 'violation class=' /tmp/matrix_$p.log | sed -E 's/.*violation class=([^ ]+).*/\1/' | sort -u | tr '\n' ',' )
    echo "$p exit=$rc $cls $(grep -E '^HARNESS-ERROR' /tmp/matrix_$p.log | head -1 | cut -c1-160)" >> /verif/seeded/$m/matrix.txt
  done
  git -C /repo checkout -- .
  echo "$m: $(grep -c 'exit=1' /verif/seeded/$m/matrix.txt) checks alarm: $(grep 'exit=1' /verif/seeded/$m/matrix.txt | cut -d' ' -f1 | tr '\n' ' ') ; harness errors: $(grep -c 'exit=2' /verif/seeded/$m/matrix.txt)"
done
