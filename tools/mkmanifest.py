#!/usr/bin/env python3
"""Regenerates /verif/MANIFEST.json from the table below (single source of truth)."""
import json, subprocess
TECH = "deterministic simulation with fault injection: "
NOTE = ("trusted: blake3, the ECVRF primitive, the reference model (sim/src/model.rs), SimDb as a faithful "
        "record-atomic store; sampling within stated bounds, not proof")
CLAIMED = {
 "C01": ("exploration", "seeded publish histories on the real Directory (parallel insertion/preload tasks interleaved by the simulator; batches of 0..12 entries, one case in 250 with batches of 127..3100 entries) compared after every call with a from-scratch canonical-trie model whose hash formulas are re-implemented on blake3", "seeded search over publish histories and internal task schedules; reference-model oracle", "7/C01"),
 "C02": ("exploration", "every label looked up (single and batched) at checked epochs through the protobuf wire and verified with lookup_verify against the returned epoch hash; compared with the model", "seeded search over histories and schedules; reference-model oracle through the simulated wire", "7/C02"),
 "C03": ("exploration", "key history for every label and parameter shape through the wire, verified and compared with the model's newest-first slice", "seeded search over histories and schedules; reference-model oracle through the simulated wire", "7/C03"),
 "C04": ("exploration", "audit(s,e) for all / sampled epoch pairs verified by audit_verify against the MODEL's root hashes; invalid ranges must be refused", "seeded search over histories and schedules; reference-model oracle", "7/C04"),
 "C20": ("exploration", "history arm with a tombstoning actor at seeded points and further publishes; hashes, audits, lookups unchanged; history under AllowMissingValues equals model with tombstoned values empty; default verifier rejects exactly slices with a tombstoned non-empty entry", "seeded search over histories with tombstoning actor; reference-model oracle", "7/C20"),
}
NA = {
 "C17": "pure function of two node labels (or a label set): no schedule, clock, fault, party or history to simulate; generating label pairs under a PRNG would be input fuzzing, not simulation",
 "C18": "pure function of (key, label, freshness, version, proof bytes): nothing to schedule or fault; transit corruption of VRF proof bytes is exercised incidentally under C19/C06",
}
PENDING = "check not built yet in this round (planned, see DESIGN.md section 7); not claimed until it exists"
import os
extra = os.path.join(os.path.dirname(__file__), "manifest_table.json")
if os.path.exists(extra):
    t = json.load(open(extra))
    for k, v in t.get("claimed", {}).items():
        CLAIMED[k] = tuple(v)
ALL = ["C%02d" % i for i in range(1, 21)]
checks = []
for pid in ALL:
    if pid in CLAIMED:
        cat, text, tech, ref = CLAIMED[pid]
        checks.append({"property_id": pid, "quick_cmd": f"./check {pid} quick", "thorough_cmd": f"./check {pid} thorough",
                       "evidence_file": f"/verif/evidence/{pid}.json", "replay_cmd_template": "./check replay {path}",
                       "engine": "akd-sim", "level_claimed": {"category": cat, "text": text, "design_ref": ref},
                       "level_note": NOTE, "technique": TECH + tech})
na = [{"property_id": p, "reason": NA.get(p, PENDING)} for p in ALL if p not in CLAIMED]
commits = subprocess.run(["git", "-C", "/repo", "log", "--format=%H %s"], capture_output=True, text=True).stdout.splitlines()
hooks = [l.split()[0] for l in commits if "verif hook" in l]
m = {"version": 1,
     "setup_cmd": "cd /verif/sim && CARGO_NET_OFFLINE=true cargo build --release --offline && CARGO_NET_OFFLINE=true cargo build --release --offline --no-default-features --target-dir /verif/sim/target-nofeat && /verif/sim/target/release/akd-sim selftest",
     "hooks": {"guard": "akd_verif",
               "enable": "rustflags --cfg akd_verif from /verif/sim/.cargo/config.toml (applies to the path dependencies /repo/akd and /repo/akd_core)",
               "baseline_off_cmd": "cd /repo && (cargo nextest run --workspace --no-fail-fast --tool-config-file pb:/w/lib/nextest.toml --profile pb --test-threads 8 --offline || cargo test --workspace --no-fail-fast --offline)",
               "source_commits": hooks[::-1], "add_only": False},
     "engines": [{"name": "akd-sim", "path": "/verif/sim", "serves_properties": sorted(CLAIMED),
                  "kind_free_text": "deterministic simulator: tokio current_thread runtime with paused clock; every Database call and StorageManager entry point is a scheduling and fault point; one PRNG decides workload, schedule and faults; reference model, replay files, minimisation"}],
     "checks": checks, "not_applicable": na,
     "notes": "H1 rewrites 7 Instant::now() call sites in the cache to cache_now() (hence add_only=false); H2, H3 only add lines. See DESIGN.md."}
json.dump(m, open("/verif/MANIFEST.json", "w"), indent=1)
print("claimed:", sorted(CLAIMED), "na:", [x["property_id"] for x in na])
