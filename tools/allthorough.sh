#!/bin/bash
# usage: tools/allthorough.sh [ID...] : thorough tier of the given (default: all claimed) checks, one after another
cd /verif
IDS=${@:-$(python3 -c "import json;print(' '.join(c['property_id'] for c in json.load(open('MANIFEST.json'))['checks']))")}
for p in $IDS; do
  s=$(date +%s); ./check $p thorough > /tmp/thorough_$p.log 2>&1; rc=$?; e=$(date +%s)
  echo "$p exit=$rc $((e-s))s $(grep -c '^KNOWN-FINDING' /tmp/thorough_$p.log) known :: $(tail -1 /tmp/thorough_$p.log | cut -c1-140)"
done
