#!/bin/bash
# usage: tools/own_check.sh <seeded-id>... : each seeded change against the quick check of the property it breaks
# (final confirmation with the committed checks; the full matrix is tools/matrix.sh). Result in seeded/<id>/own_check.txt
export VERIF_DIR=/tmp/verif_scratch_out; mkdir -p $VERIF_DIR; cp /verif/known_findings.json $VERIF_DIR/; ln -sfn /verif/sim $VERIF_DIR/sim
for m in "$@"; do
  p=${m%%-*}
  cd /repo && git diff --quiet || { echo "/repo dirty, abort"; exit 2; }
  git -C /repo apply /verif/seeded/$m/patch.diff || { echo "$m: patch does not apply"; continue; }
  cd /verif && ./check $p quick > /tmp/own_$m.log 2>&1; rc=$?
  git -C /repo checkout -- .
  cls=$(grep -E 'violation class=' /tmp/own_$m.log | sed -E 's/.*violation class=([^ ]+).*/\1/' | sort -u | tr '\n' ',')
  echo "$p quick exit=$rc $cls $(grep -E '^VIOLATION' /tmp/own_$m.log | head -1 | cut -c1-80)" | tee /verif/seeded/$m/own_check.txt
done
