#!/bin/bash
# evidence and replays of runs against a changed tree go to a scratch directory, never to /verif/evidence
export VERIF_DIR=/tmp/verif_scratch_out; mkdir -p $VERIF_DIR; cp /verif/known_findings.json $VERIF_DIR/; ln -sfn /verif/sim $VERIF_DIR/sim
# usage: tools/try_seeded.sh <patch.diff> <ID> [ID...] : apply to /repo, run the quick checks, always undo
PATCH=$1; shift
cd /repo && git diff --quiet || { echo "/repo is dirty"; exit 2; }
git -C /repo apply $PATCH || { echo "patch does not apply to /repo"; exit 2; }
for p in "$@"; do
  cd /verif && ./check $p quick > /tmp/try_$p.log 2>&1; rc=$?
  echo "$p exit=$rc :: $(grep -E '^VIOLATION|HARNESS-ERROR' /tmp/try_$p.log | head -2 | tr '\n' ' ') $(grep -E 'violation class' /tmp/try_$p.log | head -1 | cut -c1-220)"
done
git -C /repo checkout -- . ; git -C /repo status --short | head -3
