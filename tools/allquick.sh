#!/bin/sh
# usage: tools/allquick.sh [seed...] : every claimed quick check with each seed; prints exit codes
cd /verif
for s in "${@:-1}"; do
  for p in $(python3 -c "import json;print(' '.join(c['property_id'] for c in json.load(open('MANIFEST.json'))['checks']))"); do
    VERIF_SEED=$s ./check $p quick > /tmp/allquick_$p.log 2>&1; rc=$?
    echo "seed=$s $p exit=$rc $(grep -c '^KNOWN-FINDING' /tmp/allquick_$p.log) known $(tail -1 /tmp/allquick_$p.log | cut -c1-110)"
  done
done
