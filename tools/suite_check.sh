#!/bin/bash
# usage: tools/suite_check.sh <seeded-id>... : the repository's whole test suite (baseline selection) with each seeded change
WT=/tmp/mut/suite
[ -d $WT ] || git -C /repo worktree add -q --detach $WT HEAD
export CARGO_TARGET_DIR=$WT/target CARGO_NET_OFFLINE=true
cd $WT
for m in "$@"; do
  git checkout -q -- . ; git apply /verif/seeded/$m/patch.diff || { echo "$m: patch does not apply"; continue; }
  cargo nextest run --workspace --no-fail-fast --offline -E 'not test(test_output_vectors)' > $WT/suite_$m.log 2>&1
  sum=$(grep -E "Summary" $WT/suite_$m.log | tail -1)
  fails=$(grep -E "^\s+(FAIL|TIMEOUT)" $WT/suite_$m.log | sed -E 's/.*\] *//' | sort -u | tr '\n' ';')
  echo "$m: $sum :: failing: $fails" | tee /verif/seeded/$m/suite_with_patch.txt
  git checkout -q -- .
done
