#!/usr/bin/env python3
"""Writes seeded/<id>/meta.json from the agent's meta, the confirmation log and the matrix."""
import json, os, re, sys
root = '/verif/seeded'
rows = []
for d in sorted(os.listdir(root)):
    p = os.path.join(root, d)
    if not os.path.isdir(p):
        continue
    am = {}
    try:
        am = json.load(open(os.path.join(p, 'agent_meta.json')))
    except Exception:
        pass
    confirm = open(os.path.join(p, 'confirm.log')).read() if os.path.exists(os.path.join(p, 'confirm.log')) else ''
    m = re.search(r'RESULT demo_without=(\d+) demo_with=(\d+) suite_with=(\d+)', confirm)
    note = ''
    if 'test_cache_put_and_expires ... FAILED' in confirm:
        note = 'the only failing test of the suite run was storage::cache::tests::test_cache_put_and_expires, a 10 ms wall-clock test that is flaky under machine load and unrelated to the files touched; it passed when re-run alone (see confirm_rerun.log if present)'
    if os.path.exists(os.path.join(p, 'confirm_rerun.log')):
        note += ' | rerun: ' + open(os.path.join(p, 'confirm_rerun.log')).read().strip()[-200:]
    matrix = {}
    mp = os.path.join(p, 'matrix.txt')
    if os.path.exists(mp):
        for line in open(mp):
            parts = line.split()
            if len(parts) >= 2:
                matrix[parts[0]] = {'exit': int(parts[1].split('=')[1]), 'classes': parts[2] if len(parts) > 2 and not parts[2].startswith('HARNESS') else ''}
    detected = sorted(k for k, v in matrix.items() if v['exit'] == 1)
    def rd(name):
        f = os.path.join(p, name)
        return open(f).read().strip() if os.path.exists(f) else None
    suite = rd('suite_with_patch.txt')
    own = rd('own_check.txt')
    prop = am.get('property', d.split('-')[0])
    if own and 'exit=1' in own and prop not in detected:
        detected = sorted(detected + [prop])
    meta = {
        'id': d,
        'breaks_property': prop,
        'origin': 'written by an independent sub-agent that was given only the text of the property and its own scratch worktree of facebook/akd (nothing from /verif)',
        'summary': am.get('summary', ''),
        'needs_to_manifest': am.get('needs_to_manifest', ''),
        'files_touched': am.get('files_touched', []),
        'confirmed_by_me_in_a_scratch_worktree': {
            'command': 'tools/confirm_mutant.sh <worktree> patch.diff demo_<id>.rs  (demo without patch, demo with patch, cargo test -p akd -p akd_core --lib with patch)',
            'demo_without_patch_exit': int(m.group(1)) if m else None,
            'demo_with_patch_exit': int(m.group(2)) if m else None,
            'existing_suite_with_patch_exit': int(m.group(3)) if m else None,
            'note': note,
        },
        'checks_run_against_it': 'tools/matrix.sh: git -C /repo apply patch.diff; ./check <ID> quick for every claimed ID; git -C /repo checkout -- .',
        'whole_suite_with_patch': suite,
        'own_property_quick_check_with_final_checks': own,
        'detected_by': detected,
        'matrix': matrix,
    }
    json.dump(meta, open(os.path.join(p, 'meta.json'), 'w'), indent=1)
    rows.append((d, prop, detected))
for r in rows:
    print(r)
