#!/bin/sh
# usage: tools/determinism.sh <ID> [n] : same seeds, fresh processes, 1 and 16 worker threads; outputs must be identical
ID=$1; N=${2:-300}
BIN=/verif/sim/target/release/akd-sim
T=$(mktemp -d)
VERIF_THREADS=16 $BIN fingerprints $ID quick $N > $T/a
VERIF_THREADS=16 $BIN fingerprints $ID quick $N > $T/b
VERIF_THREADS=1  $BIN fingerprints $ID quick $N > $T/c
VERIF_THREADS=5  $BIN fingerprints $ID quick $N > $T/d
if cmp -s $T/a $T/b && cmp -s $T/a $T/c && cmp -s $T/a $T/d; then echo "DETERMINISTIC $ID n=$N ($(wc -l < $T/a) runs x 4 processes)"; rm -rf $T; exit 0
else echo "DIVERGENCE $ID: see $T"; diff $T/a $T/b | head -5; diff $T/a $T/c | head -5; exit 2; fi
