#!/bin/bash
# usage: tools/confirm_mutant.sh <worktree> <patch> <demo test file> [demo name]
# Confirms in a scratch worktree: demo passes without the patch, fails with it, existing akd + akd_core tests pass with it.
WT=$1; PATCH=$2; DEMO=$3; NAME=${4:-$(basename $DEMO .rs)}
export CARGO_TARGET_DIR=$WT/target CARGO_NET_OFFLINE=true
cd $WT || exit 2
git checkout -q -- . ; git clean -fdq akd/tests 2>/dev/null
mkdir -p akd/tests && cp $DEMO akd/tests/$NAME.rs
echo "== demo WITHOUT patch"; cargo test -p akd --offline --test $NAME 2>&1 | grep -E "^test result|panicked|error(\[|:)" | head -5; R0=${PIPESTATUS[0]}
git apply $PATCH || { echo "patch does not apply"; exit 2; }
echo "== demo WITH patch"; cargo test -p akd --offline --test $NAME 2>&1 | grep -E "^test result|panicked|error(\[|:)" | head -5; R1=${PIPESTATUS[0]}
echo "== existing tests WITH patch"; cargo test -p akd -p akd_core --offline --lib 2>&1 | grep -E "^test result|FAILED|failed|error(\[|:)" | head -8; R2=${PIPESTATUS[0]}
git checkout -q -- . ; rm -f akd/tests/$NAME.rs
echo "RESULT demo_without=$R0 demo_with=$R1 suite_with=$R2  (want 0, non-zero, 0)"
